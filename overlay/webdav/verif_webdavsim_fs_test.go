// Engine webdavsim, part 2: C44 — NewMemFS() against webdav.Dir over a fresh
// temporary directory (the executable reference), multi-client histories with
// open handles. The temporary directory's name never enters the trace.

package webdav

import (
	"context"
	"fmt"
	"io"
	iofs "io/fs"
	"os"
	"path"
	"path/filepath"
	"sort"
	"strings"
	"testing"

	vs "golang.org/x/net/internal/verifsim"
	"pgregory.net/rapid"
)

// Input classes that are left out of the generated histories by default,
// because the os semantics are unspecified / OS-specific there or because
// memFS documents that it does not support them (see engines/webdavsim.json
// "assumptions"). VERIF_C44_INCLUDE=<class>[,<class>...]|all puts them back,
// for exploration by hand.
var fxInclude = func() map[string]bool {
	m := map[string]bool{}
	for _, s := range strings.Split(os.Getenv("VERIF_C44_INCLUDE"), ",") {
		if s != "" {
			m[s] = true
		}
	}
	return m
}()

func fxInc(class string) bool { return fxInclude["all"] || fxInclude[class] }

type fxHandle struct {
	id       int
	client   int
	mf, df   File
	isDir    bool
	rd, wr   bool
	path     string // current clean path; "" once unlinked
	dirty    bool   // directory changed since open: Readdir results are don't-care
	accM     []string
	accD     []string
	rootOpen bool
}

type fxSim struct {
	ctx     context.Context
	mem     FileSystem
	ref     FileSystem
	tmp     string
	handles []*fxHandle
	nextID  int
	tr      *vs.Trace
	tag     int
	refSnap map[string]string // cached snapshot of the native tree
	refMut  bool              // the last operation may have changed the native tree
}

func fxClass(err error) string {
	if err == nil {
		return "ok"
	}
	return "fail"
}

func fxRWClass(n int, err error) string {
	switch {
	case err == nil:
		return fmt.Sprintf("ok(%d)", n)
	case err == io.EOF:
		return fmt.Sprintf("eof(%d)", n)
	}
	return "fail"
}

// kind of a clean virtual path in the reference: "missing", "file", "dir"
// (from the cached reference snapshot).
func (s *fxSim) kind(p string) string {
	v, ok := s.refSnap[p]
	switch {
	case !ok:
		return "missing"
	case v == "d":
		return "dir"
	}
	return "file"
}

// fxRefSnap reads the native tree directly (fewer system calls than going
// through Dir): names, kinds, contents.
func fxRefSnap(tmp string) (map[string]string, error) {
	out := map[string]string{}
	err := filepath.WalkDir(tmp, func(p string, d iofs.DirEntry, err error) error {
		if err != nil {
			return err
		}
		v := filepath.ToSlash(p[len(tmp):])
		if v == "" {
			v = "/"
		}
		if d.IsDir() {
			out[v] = "d"
			return nil
		}
		b, err := os.ReadFile(p)
		if err != nil {
			return err
		}
		out[v] = "f:" + string(b)
		return nil
	})
	return out, err
}

func (s *fxSim) refreshRef(rt *rapid.T) {
	m, err := fxRefSnap(s.tmp)
	if err != nil {
		vs.Harnessf(rt, "reading the native reference tree: %v", err)
	}
	s.refSnap = m
}

func fxSnap(ctx context.Context, fs FileSystem) (map[string]string, error) {
	out := map[string]string{}
	var walk func(p string) error
	walk = func(p string) error {
		f, err := fs.OpenFile(ctx, p, os.O_RDONLY, 0)
		if err != nil {
			return fmt.Errorf("open %s: %v", p, err)
		}
		defer f.Close()
		fi, err := f.Stat()
		if err != nil {
			return fmt.Errorf("stat %s: %v", p, err)
		}
		if !fi.IsDir() {
			b, err := fxReadAll(f)
			if err != nil {
				return fmt.Errorf("read %s: %v", p, err)
			}
			out[p] = "f:" + string(b)
			return nil
		}
		out[p] = "d"
		cs, err := f.Readdir(-1)
		if err != nil {
			return fmt.Errorf("readdir %s: %v", p, err)
		}
		names := make([]string, len(cs))
		for i, c := range cs {
			names[i] = c.Name()
		}
		sort.Strings(names)
		for _, n := range names {
			if err := walk(path.Join(p, n)); err != nil {
				return err
			}
		}
		return nil
	}
	return out, walk("/")
}

// fxReadAll is io.ReadAll that gives up on a reader that makes no progress
// (returns 0, nil forever) instead of spinning.
func fxReadAll(r io.Reader) ([]byte, error) {
	var out []byte
	buf := make([]byte, 256)
	idle := 0
	for {
		n, err := r.Read(buf)
		out = append(out, buf[:n]...)
		if err == io.EOF {
			return out, nil
		}
		if err != nil {
			return out, err
		}
		if n == 0 {
			if idle++; idle > 3 {
				return out, fmt.Errorf("Read keeps returning (0, nil) after %d bytes", len(out))
			}
		} else {
			idle = 0
		}
	}
}

func fxDiff(a, b map[string]string) string {
	var keys []string
	for k := range a {
		keys = append(keys, k)
	}
	for k := range b {
		if _, ok := a[k]; !ok {
			keys = append(keys, k)
		}
	}
	sort.Strings(keys)
	var d []string
	for _, k := range keys {
		if a[k] != b[k] {
			d = append(d, fmt.Sprintf("%s: memFS=%q native=%q", k, a[k], b[k]))
		}
	}
	return strings.Join(d, "; ")
}

func (s *fxSim) compareState(op string) *vs.Violation {
	var ms map[string]string
	var merr error
	if v := vs.Guard("C44", "panic_in_snapshot", func() { ms, merr = fxSnap(s.ctx, s.mem) }); v != nil {
		return v
	}
	rs := s.refSnap
	if merr != nil {
		return vs.Violf("C44", "state_unreadable", op+":state_unreadable", "after %s: memFS tree cannot be walked: %v", op, merr)
	}
	if d := fxDiff(ms, rs); d != "" {
		return vs.Violf("C44", "state_differs", op+":state", "after %s the visible trees differ: %s", op, d)
	}
	return nil
}

func (s *fxSim) genPath(c vs.Chooser) (spelled, clean string) {
	if vs.Pct(c, 4) {
		return "/", "/"
	}
	d := vs.Pick(c, 1, 2, 1, 2, 3)
	clean = ""
	for i := 0; i < d; i++ {
		clean += "/" + vs.Pick(c, "a", "b", "c")
	}
	spelled = clean
	if vs.Pct(c, 10) {
		switch c.Intn(5) {
		case 0:
			spelled = clean + "/"
		case 1:
			spelled = "/." + clean
		case 2:
			spelled = "/q/.." + clean
		case 3:
			spelled = "/" + clean
		case 4:
			spelled = clean[1:]
		}
	}
	return
}

func (s *fxSim) markParentDirty(clean string) {
	par := path.Dir(clean)
	for _, h := range s.handles {
		if h.isDir && h.path == par {
			h.dirty = true
		}
	}
}

func (s *fxSim) unlinkUnder(clean string) {
	for _, h := range s.handles {
		if h.path != "" && wdUnder(h.path, clean) {
			h.path = ""
			h.dirty = true
		}
	}
}

func (s *fxSim) mismatch(op, situation, mc, rc string, detail string) *vs.Violation {
	return vs.Violf("C44", "result_differs", fmt.Sprintf("%s:%s:mem=%s:ref=%s", op, situation, strings.SplitN(mc, "(", 2)[0], strings.SplitN(rc, "(", 2)[0]),
		"%s (%s): memFS -> %s, native -> %s %s", op, situation, mc, rc, detail)
}

func (s *fxSim) opMkdir(c vs.Chooser, client int) *vs.Violation {
	sp, cl := s.genPath(c)
	sit := s.kind(cl)
	var me error
	if v := vs.Guard("C44", "panic_in_mkdir", func() { me = s.mem.Mkdir(s.ctx, sp, 0777) }); v != nil {
		return v
	}
	re := s.ref.Mkdir(s.ctx, sp, 0777)
	s.tr.Ev("c%d mkdir %s -> %s", client, sp, fxClass(re))
	if fxClass(me) != fxClass(re) {
		return s.mismatch("mkdir", sit, fxClass(me), fxClass(re), fmt.Sprintf("path=%q memerr=%v referr=%v", sp, me, re))
	}
	if re == nil {
		s.refMut = true
		s.markParentDirty(cl)
	}
	return nil
}

func (s *fxSim) opOpen(c vs.Chooser, client int) *vs.Violation {
	sp, cl := s.genPath(c)
	k := s.kind(cl)
	acc := vs.Pick(c, os.O_RDONLY, os.O_RDWR, os.O_WRONLY)
	flag := acc
	fl := ""
	if vs.Pct(c, 45) {
		flag |= os.O_CREATE
		fl += "c"
		if vs.Pct(c, 25) {
			flag |= os.O_EXCL
			fl += "x"
		}
	}
	if vs.Pct(c, 25) && (acc != os.O_RDONLY || fxInc("trunc_rdonly")) {
		flag |= os.O_TRUNC
		fl += "t"
	}
	if fxInc("append_sync") && vs.Pct(c, 15) {
		flag |= vs.Pick(c, os.O_APPEND, os.O_SYNC)
		fl += "a"
	}
	if k == "dir" && !fxInc("dir_write_open") {
		// plain read-only open of a directory (O_CREATE|O_EXCL is well defined: EEXIST)
		if !(flag&os.O_CREATE != 0 && flag&os.O_EXCL != 0 && cl != "/") {
			acc, flag, fl = os.O_RDONLY, os.O_RDONLY, ""
		}
	}
	sit := fmt.Sprintf("%s/%s%s", k, map[int]string{os.O_RDONLY: "r", os.O_RDWR: "rw", os.O_WRONLY: "w"}[acc], fl)
	if k == "missing" {
		if pk := s.kind(path.Dir(cl)); pk != "dir" {
			sit = "parent_" + pk + sit[len("missing"):]
		}
	}
	var mf File
	var me error
	if v := vs.Guard("C44", "panic_in_open", func() { mf, me = s.mem.OpenFile(s.ctx, sp, flag, 0666) }); v != nil {
		return v
	}
	rf, re := s.ref.OpenFile(s.ctx, sp, flag, 0666)
	s.tr.Ev("c%d open %s %s -> %s", client, sp, sit, fxClass(re))
	if fxClass(me) != fxClass(re) {
		if rf != nil {
			rf.Close()
		}
		if mf != nil {
			mf.Close()
		}
		return s.mismatch("open", sit, fxClass(me), fxClass(re), fmt.Sprintf("path=%q flag=%#x memerr=%v referr=%v", sp, flag, me, re))
	}
	if re != nil {
		return nil
	}
	if k == "missing" {
		s.markParentDirty(cl)
	}
	if k == "missing" || flag&os.O_TRUNC != 0 {
		s.refMut = true
	}
	h := &fxHandle{id: s.nextID, client: client, mf: mf, df: rf, isDir: k == "dir", path: cl,
		rd: acc != os.O_WRONLY, wr: acc != os.O_RDONLY, rootOpen: cl == "/"}
	s.nextID++
	s.handles = append(s.handles, h)
	s.tr.Ev("   = h%d", h.id)
	if len(s.handles) > 1 {
		vs.G.Inc("probe.concurrent_handles")
	}
	return nil
}

func (s *fxSim) clientHandle(c vs.Chooser, client int) *fxHandle {
	var hs []*fxHandle
	for _, h := range s.handles {
		if h.client == client {
			hs = append(hs, h)
		}
	}
	if len(hs) == 0 {
		return nil
	}
	return hs[c.Intn(len(hs))]
}

func (s *fxSim) opWrite(c vs.Chooser, h *fxHandle) *vs.Violation {
	if h.isDir || !h.wr && !fxInc("mode_misuse") {
		return nil
	}
	n := vs.Range(c, 1, 12)
	if fxInc("empty_io") && vs.Pct(c, 15) {
		n = 0
	}
	s.tag++
	data := make([]byte, n)
	for i := range data {
		data[i] = byte('A' + (s.tag*5+i)%26)
	}
	var mn int
	var me error
	if v := vs.Guard("C44", "panic_in_write", func() { mn, me = h.mf.Write(data) }); v != nil {
		return v
	}
	rn, re := h.df.Write(data)
	s.refMut = true
	s.tr.Ev("c%d write h%d %q -> %s", h.client, h.id, data, fxRWClass(rn, re))
	if fxRWClass(mn, me) != fxRWClass(rn, re) {
		sit := "file"
		if !h.wr {
			sit = "rdonly_handle"
		}
		if n == 0 {
			sit += "/empty"
		}
		return s.mismatch("write", sit, fxRWClass(mn, me), fxRWClass(rn, re), fmt.Sprintf("memerr=%v referr=%v", me, re))
	}
	if h.path == "" {
		vs.G.Inc("probe.io_on_unlinked_handle")
	}
	return nil
}

func (s *fxSim) opRead(c vs.Chooser, h *fxHandle) *vs.Violation {
	if !h.rd && !fxInc("mode_misuse") {
		return nil
	}
	n := vs.Range(c, 1, 20)
	if fxInc("empty_io") && vs.Pct(c, 15) {
		n = 0
	}
	mb, rb := make([]byte, n), make([]byte, n)
	var mn int
	var me error
	if v := vs.Guard("C44", "panic_in_read", func() { mn, me = h.mf.Read(mb) }); v != nil {
		return v
	}
	rn, re := h.df.Read(rb)
	s.tr.Ev("c%d read h%d %d -> %s %q", h.client, h.id, n, fxRWClass(rn, re), rb[:max(rn, 0)])
	sit := "file"
	if h.isDir {
		sit = "dir"
	} else if !h.rd {
		sit = "wronly_handle"
	}
	if n == 0 {
		sit += "/empty"
	}
	if fxRWClass(mn, me) != fxRWClass(rn, re) {
		return s.mismatch("read", sit, fxRWClass(mn, me), fxRWClass(rn, re), fmt.Sprintf("memerr=%v referr=%v", me, re))
	}
	if string(mb[:max(mn, 0)]) != string(rb[:max(rn, 0)]) {
		return vs.Violf("C44", "read_data_differs", "read:"+sit+":data", "Read(%d) on h%d: memFS %q, native %q", n, h.id, mb[:mn], rb[:rn])
	}
	if rn > 0 && h.path == "" {
		vs.G.Inc("probe.io_on_unlinked_handle")
	}
	return nil
}

func (s *fxSim) opSeek(c vs.Chooser, h *fxHandle) *vs.Violation {
	off := int64(vs.Pick(c, 0, 1, 3, 7, 20, 64, -1, -3, -100))
	wh := vs.Pick(c, io.SeekStart, io.SeekCurrent, io.SeekEnd, 7)
	if h.isDir && !fxInc("seek_dir") {
		off, wh = 0, io.SeekStart
	}
	var mp int64
	var me error
	if v := vs.Guard("C44", "panic_in_seek", func() { mp, me = h.mf.Seek(off, wh) }); v != nil {
		return v
	}
	rp, re := h.df.Seek(off, wh)
	s.tr.Ev("c%d seek h%d %d,%d -> %s %d", h.client, h.id, off, wh, fxClass(re), rp)
	sit := fmt.Sprintf("whence%d", wh)
	if h.isDir {
		sit = "dir/" + sit
	}
	if fxClass(me) != fxClass(re) {
		return s.mismatch("seek", sit, fxClass(me), fxClass(re), fmt.Sprintf("off=%d memerr=%v referr=%v", off, me, re))
	}
	if re == nil && mp != rp {
		return vs.Violf("C44", "seek_pos_differs", "seek:"+sit+":pos", "Seek(%d,%d) on h%d: memFS at %d, native at %d", off, wh, h.id, mp, rp)
	}
	if re == nil && h.isDir {
		h.accM, h.accD = nil, nil
	}
	if re == nil && !h.isDir && off > 0 && wh == io.SeekEnd {
		vs.G.Inc("probe.seek_past_end")
	}
	return nil
}

func fxNames(fis []os.FileInfo) []string {
	var out []string
	for _, fi := range fis {
		k := "f"
		if fi.IsDir() {
			k = "d"
		}
		out = append(out, fi.Name()+":"+k)
	}
	return out
}

func (s *fxSim) opReaddir(c vs.Chooser, h *fxHandle) *vs.Violation {
	count := vs.Pick(c, -1, 0, 1, 2, 5)
	var mfi []os.FileInfo
	var me error
	if v := vs.Guard("C44", "panic_in_readdir", func() { mfi, me = h.mf.Readdir(count) }); v != nil {
		return v
	}
	rfi, re := h.df.Readdir(count)
	s.tr.Ev("c%d readdir h%d %d -> %s dirty=%v", h.client, h.id, count, fxRWClass(len(rfi), re), h.dirty)
	if !h.isDir {
		if fxClass(me) != fxClass(re) {
			return s.mismatch("readdir", "file", fxClass(me), fxClass(re), "")
		}
		return nil
	}
	if h.dirty {
		vs.G.Inc("probe.readdir_dont_care")
		return nil
	}
	if count <= 0 && len(h.accD) > 0 && me == nil && re == nil {
		// Readdir(n<=0) after a partial paged read: the os documentation says
		// "all the FileInfo from the directory", the os implementation returns
		// the remaining ones. Either is accepted.
		vs.G.Inc("probe.readdir_all_after_partial")
		rest := fxNames(rfi)
		all := append(append([]string{}, h.accD...), rest...)
		got := fxNames(mfi)
		sort.Strings(rest)
		sort.Strings(all)
		sort.Strings(got)
		h.accM, h.accD = nil, nil
		if g := strings.Join(got, ","); g != strings.Join(rest, ",") && g != strings.Join(all, ",") {
			return vs.Violf("C44", "readdir_entries_differ", "readdir:entries_after_partial", "Readdir(%d) of h%d after a partial read: memFS %v, native remaining %v / all %v", count, h.id, got, rest, all)
		}
		return nil
	}
	if fxRWClass(len(mfi), me) != fxRWClass(len(rfi), re) {
		return s.mismatch("readdir", fmt.Sprintf("dir/count%d", count), fxRWClass(len(mfi), me), fxRWClass(len(rfi), re), fmt.Sprintf("memerr=%v referr=%v", me, re))
	}
	h.accM = append(h.accM, fxNames(mfi)...)
	h.accD = append(h.accD, fxNames(rfi)...)
	if count <= 0 || re == io.EOF {
		sort.Strings(h.accM)
		sort.Strings(h.accD)
		if strings.Join(h.accM, ",") != strings.Join(h.accD, ",") {
			return vs.Violf("C44", "readdir_entries_differ", "readdir:entries", "directory listing of h%d: memFS %v, native %v", h.id, h.accM, h.accD)
		}
		vs.G.Inc("probe.readdir_compared")
		if count <= 0 {
			h.accM, h.accD = nil, nil
		}
	}
	return nil
}

func (s *fxSim) opHStat(h *fxHandle) *vs.Violation {
	var mfi os.FileInfo
	var me error
	if v := vs.Guard("C44", "panic_in_fstat", func() { mfi, me = h.mf.Stat() }); v != nil {
		return v
	}
	rfi, re := h.df.Stat()
	s.tr.Ev("c%d fstat h%d -> %s", h.client, h.id, fxClass(re))
	if fxClass(me) != fxClass(re) {
		return s.mismatch("fstat", "handle", fxClass(me), fxClass(re), "")
	}
	if re != nil {
		return nil
	}
	return fxCmpInfo("fstat", mfi, rfi, !h.rootOpen)
}

func fxCmpInfo(op string, mfi, rfi os.FileInfo, cmpName bool) *vs.Violation {
	if mfi.IsDir() != rfi.IsDir() {
		return vs.Violf("C44", "stat_differs", op+":kind", "%s: memFS IsDir=%v native IsDir=%v", op, mfi.IsDir(), rfi.IsDir())
	}
	if !rfi.IsDir() && mfi.Size() != rfi.Size() {
		return vs.Violf("C44", "stat_differs", op+":size", "%s: memFS size %d native size %d", op, mfi.Size(), rfi.Size())
	}
	if cmpName && mfi.Name() != rfi.Name() {
		return vs.Violf("C44", "stat_differs", op+":name", "%s: memFS name %q native name %q", op, mfi.Name(), rfi.Name())
	}
	return nil
}

func (s *fxSim) opStat(c vs.Chooser, client int) *vs.Violation {
	sp, cl := s.genPath(c)
	var mfi os.FileInfo
	var me error
	if v := vs.Guard("C44", "panic_in_stat", func() { mfi, me = s.mem.Stat(s.ctx, sp) }); v != nil {
		return v
	}
	rfi, re := s.ref.Stat(s.ctx, sp)
	s.tr.Ev("c%d stat %s -> %s", client, sp, fxClass(re))
	if fxClass(me) != fxClass(re) {
		return s.mismatch("stat", s.kind(cl), fxClass(me), fxClass(re), fmt.Sprintf("path=%q memerr=%v referr=%v", sp, me, re))
	}
	if re != nil {
		return nil
	}
	return fxCmpInfo("stat", mfi, rfi, sp == cl && cl != "/")
}

func (s *fxSim) opRemoveAll(c vs.Chooser, client int) *vs.Violation {
	sp, cl := s.genPath(c)
	k := s.kind(cl)
	sit := k
	if k == "missing" {
		if pk := s.kind(path.Dir(cl)); pk != "dir" {
			sit = "parent_" + pk
			// Below a regular file both file systems refuse (ENOTDIR); only a
			// missing parent under directories is the documented divergence
			// (os.RemoveAll: nil, memFS: error) that is left out by default.
			underFile := false
			for a := path.Dir(cl); a != "/" && a != "."; a = path.Dir(a) {
				if s.kind(a) == "file" {
					underFile = true
				}
			}
			if underFile {
				sit = "under_file"
				vs.G.Inc("probe.removeall_under_file")
			} else if !fxInc("removeall_missing_parent") {
				return nil
			}
		}
	}
	var me error
	if v := vs.Guard("C44", "panic_in_removeall", func() { me = s.mem.RemoveAll(s.ctx, sp) }); v != nil {
		return v
	}
	re := s.ref.RemoveAll(s.ctx, sp)
	s.refMut = true
	s.tr.Ev("c%d removeall %s (%s) -> %s", client, sp, sit, fxClass(re))
	if fxClass(me) != fxClass(re) {
		return s.mismatch("removeall", sit, fxClass(me), fxClass(re), fmt.Sprintf("path=%q memerr=%v referr=%v", sp, me, re))
	}
	if re == nil && k != "missing" {
		for _, h := range s.handles {
			if h.path != "" && wdUnder(h.path, cl) {
				vs.G.Inc("probe.removed_with_open_handle")
				break
			}
		}
		s.unlinkUnder(cl)
		s.markParentDirty(cl)
	}
	return nil
}

// opRename returns stop=true when the two file systems legitimately diverged
// (rename over an existing entry is OS-specific by the FileSystem contract).
func (s *fxSim) opRename(c vs.Chooser, client int) (v *vs.Violation, stop bool) {
	osp, ocl := s.genPath(c)
	nsp, ncl := s.genPath(c)
	ok, nk := s.kind(ocl), s.kind(ncl)
	if ok != "missing" && vs.Pct(c, 20) {
		// aim into the own subtree
		nsp = ocl + "/" + vs.Pick(c, "a", "b", "c")
		ncl = nsp
		nk = s.kind(ncl)
	}
	sit := ok + "->" + nk
	overExisting := nk != "missing" && ocl != ncl && ok != "missing" && !wdIsDesc(ncl, ocl)
	switch {
	case ocl == "/" || ncl == "/":
		sit = "root"
		vs.G.Inc("probe.rename_root")
	case ocl == ncl:
		sit = "same_" + ok
	case wdIsDesc(ncl, ocl):
		sit = "into_own_subtree_" + ok
		if ok == "dir" {
			vs.G.Inc("probe.rename_into_own_subtree")
		}
	case overExisting:
		sit = "over_existing"
	case nk == "missing" && s.kind(path.Dir(ncl)) != "dir":
		sit = ok + "->parent_" + s.kind(path.Dir(ncl))
	}
	var me error
	if v := vs.Guard("C44", "panic_in_rename", func() { me = s.mem.Rename(s.ctx, osp, nsp) }); v != nil {
		return v, false
	}
	re := s.ref.Rename(s.ctx, osp, nsp)
	s.refMut = true
	s.tr.Ev("c%d rename %s %s (%s) -> %s", client, osp, nsp, sit, fxClass(re))
	if fxClass(me) != fxClass(re) {
		if ocl == ncl && ok != "missing" && ocl != "/" {
			// renaming an existing entry onto itself is a rename over an existing
			// entry (Go's os.Rename refuses it for directories): OS-specific, and
			// the tree is unchanged either way.
			vs.G.Inc("probe.rename_onto_itself_dont_care")
			return nil, false
		}
		if overExisting {
			vs.G.Inc("probe.rename_over_existing_diverged")
			s.tr.Ev("   memFS -> %s: diverged (OS-specific), history ends", fxClass(me))
			return nil, true
		}
		return s.mismatch("rename", sit, fxClass(me), fxClass(re), fmt.Sprintf("old=%q new=%q memerr=%v referr=%v", osp, nsp, me, re)), false
	}
	if re == nil && ocl != ncl {
		if overExisting {
			vs.G.Inc("probe.rename_over_existing_agreed")
		}
		s.unlinkUnder(ncl)
		moved := false
		for _, h := range s.handles {
			if h.path != "" && wdUnder(h.path, ocl) {
				h.path = ncl + h.path[len(ocl):]
				moved = true
				// os.File.Readdir lstats "<name at open time>/<entry>" and
				// silently drops entries it cannot find: after the directory
				// was moved the native listing is not a usable reference.
				h.dirty = true
			}
		}
		if moved {
			vs.G.Inc("probe.renamed_with_open_handle")
		}
		s.markParentDirty(ocl)
		s.markParentDirty(ncl)
	}
	return nil, false
}

func (s *fxSim) opClose(h *fxHandle) *vs.Violation {
	var me error
	if v := vs.Guard("C44", "panic_in_close", func() { me = h.mf.Close() }); v != nil {
		return v
	}
	re := h.df.Close()
	s.tr.Ev("c%d close h%d -> %s", h.client, h.id, fxClass(re))
	for i, x := range s.handles {
		if x == h {
			s.handles = append(s.handles[:i], s.handles[i+1:]...)
			break
		}
	}
	if fxClass(me) != fxClass(re) {
		return s.mismatch("close", "handle", fxClass(me), fxClass(re), "")
	}
	return nil
}

func fxRun(t *testing.T, rt *rapid.T) {
	c := vs.RapidChooser{T: rt}
	tr := vs.NewTrace()
	for _, p := range []string{"probe.concurrent_handles", "probe.io_on_unlinked_handle", "probe.seek_past_end", "probe.readdir_compared",
		"probe.readdir_dont_care", "probe.removed_with_open_handle", "probe.rename_root", "probe.rename_into_own_subtree",
		"probe.rename_over_existing_diverged", "probe.rename_over_existing_agreed", "probe.renamed_with_open_handle"} {
		vs.G.Add(p, 0)
	}
	// $VERIF_C44_TMP (a tmpfs, set by the job) is only a faster place for the
	// native reference directory; without it the default temp dir is used.
	base := ""
	if d := os.Getenv("VERIF_C44_TMP"); d != "" {
		if fi, err := os.Stat(d); err == nil && fi.IsDir() {
			base = d
		}
	}
	tmp, err := os.MkdirTemp(base, "vfdav")
	if err != nil {
		vs.Harnessf(rt, "MkdirTemp: %v", err)
	}
	s := &fxSim{ctx: context.Background(), mem: NewMemFS(), ref: Dir(tmp), tmp: tmp, tr: tr, refSnap: map[string]string{"/": "d"}}
	defer func() {
		for _, h := range s.handles {
			h.df.Close()
		}
		os.RemoveAll(tmp)
	}()
	nclients := vs.Range(c, 1, 3)
	nops := vs.Range(c, 1, vs.Thorough(30, 80))
	var viol *vs.Violation
	work := 0
	for op := 0; op < nops && viol == nil; op++ {
		client := c.Intn(nclients)
		k := c.Intn(24)
		name := ""
		stop := false
		switch {
		case k < 3:
			name, viol = "mkdir", s.opMkdir(c, client)
		case k < 8:
			name, viol = "open", s.opOpen(c, client)
		case k < 10:
			name, viol = "stat", s.opStat(c, client)
		case k < 12:
			name, viol = "removeall", s.opRemoveAll(c, client)
		case k < 15:
			name = "rename"
			viol, stop = s.opRename(c, client)
		default:
			h := s.clientHandle(c, client)
			if h == nil {
				name, viol = "open", s.opOpen(c, client)
				break
			}
			switch {
			case k < 18:
				name, viol = "write", s.opWrite(c, h)
			case k < 20:
				name, viol = "read", s.opRead(c, h)
			case k < 21:
				name, viol = "seek", s.opSeek(c, h)
			case k < 22:
				name, viol = "readdir", s.opReaddir(c, h)
			case k < 23:
				name, viol = "fstat", s.opHStat(h)
			default:
				name, viol = "close", s.opClose(h)
			}
		}
		if stop {
			break
		}
		if s.refMut {
			s.refreshRef(rt)
			s.refMut = false
		}
		work++
		if viol == nil {
			viol = s.compareState(name)
		}
	}
	vs.G.EndRun(tr, work > 1, 0, func() any {
		return map[string]any{"clients": nclients, "events": tr.Log[:min(len(tr.Log), 40)]}
	})
	vs.Report(rt, wdFilter(viol), tr)
}

func TestVerif_C44(t *testing.T) { vs.Check(t, func(rt *rapid.T) { fxRun(t, rt) }) }
