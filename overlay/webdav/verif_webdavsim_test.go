// Engine webdavsim, part 1: shared helpers and C43 (memLS against a lock-table
// reference model written from the LockSystem doc comments / RFC 4918, with a
// simulated monotone clock). Sequential engine: every choice is drawn from rapid.

package webdav

import (
	"fmt"
	"os"
	"sort"
	"strings"
	"testing"
	"time"

	vs "golang.org/x/net/internal/verifsim"
	"pgregory.net/rapid"
)

// wdSkipSig is an exploration aid (never set by the registered jobs): a
// comma-separated list of violation sigs that are counted ("skipped.<sig>")
// instead of reported, so that rarer violation classes behind a frequent one
// can be looked for by hand.
var wdSkipSig = func() map[string]bool {
	m := map[string]bool{}
	for _, s := range strings.Split(os.Getenv("VERIF_SKIPSIG"), ",") {
		if s != "" {
			m[s] = true
		}
	}
	return m
}()

func wdFilter(v *vs.Violation) *vs.Violation {
	if v != nil && wdSkipSig[v.Sig] {
		vs.G.Inc("skipped." + v.Sig)
		return nil
	}
	return v
}

// wdIsDesc reports whether x is a strict descendant of r (clean absolute names).
func wdIsDesc(x, r string) bool {
	if x == r {
		return false
	}
	if r == "/" {
		return strings.HasPrefix(x, "/")
	}
	return strings.HasPrefix(x, r+"/")
}

func wdUnder(x, r string) bool { return x == r || wdIsDesc(x, r) }

// ---------------------------------------------------------------------------
// C43

const lkBase = int64(1_000_000) * int64(time.Second)

func lkTime(ns int64) time.Time { return time.Unix(0, lkBase+ns) }

type lkLock struct {
	idx    int
	token  string
	root   string
	zero   bool
	inf    bool
	expiry int64 // ns, when !inf
	held   bool
	dead   bool // removed (unlocked) or proven expired
}

const (
	lkDead = iota
	lkLive
	lkBoundary
)

func (l *lkLock) status(now int64) int {
	switch {
	case l.dead:
		return lkDead
	case l.held || l.inf:
		return lkLive
	case now < l.expiry:
		return lkLive
	case now == l.expiry:
		return lkBoundary
	}
	return lkDead
}

func (l *lkLock) covers(name string) bool {
	return name == l.root || !l.zero && wdIsDesc(name, l.root)
}

// conflicts: the resources covered by l and by a requested lock (root, zero)
// intersect.
func (l *lkLock) conflicts(root string, zero bool) bool {
	if l.covers(root) {
		return true
	}
	return !zero && wdIsDesc(l.root, root)
}

type lkRelease struct {
	client int
	fn     func()
	locks  []*lkLock
}

type lkModel struct {
	ls       LockSystem
	now      int64
	locks    []*lkLock
	byToken  map[string]*lkLock
	seen     map[string]bool
	releases []*lkRelease
	tr       *vs.Trace
}

var lkNames = []string{"/a", "/", "/a/b", "/a/b/c", "/d", "/ab"}

func (m *lkModel) tokName(tok string) string {
	if l := m.byToken[tok]; l != nil {
		return fmt.Sprintf("t%d", l.idx)
	}
	return "bogus"
}

func lkOK(err error) string {
	if err == nil {
		return "ok"
	}
	return "fail"
}

func (m *lkModel) create(c vs.Chooser, client int) *vs.Violation {
	root := lkNames[c.Intn(len(lkNames))]
	zero := vs.Bool(c)
	dur := vs.Pick(c, time.Second, 0, 2*time.Second, 3*time.Second, 5*time.Second, 10*time.Second,
		-1, -7*time.Second, time.Nanosecond)
	var definite, boundary []*lkLock
	for _, l := range m.locks {
		if !l.conflicts(root, zero) {
			continue
		}
		switch l.status(m.now) {
		case lkLive:
			definite = append(definite, l)
		case lkBoundary:
			boundary = append(boundary, l)
		}
	}
	var tok string
	var err error
	if v := vs.Guard("C43", "panic_in_create", func() {
		tok, err = m.ls.Create(lkTime(m.now), LockDetails{Root: root, Duration: dur, ZeroDepth: zero, OwnerXML: fmt.Sprintf("c%d", client)})
	}); v != nil {
		m.tr.Ev("c%d create %s zero=%v dur=%d -> PANIC", client, root, zero, dur)
		return v
	}
	m.tr.Ev("c%d create %s zero=%v dur=%d -> %s", client, root, zero, dur, lkOK(err))
	desc := func(ls []*lkLock) string {
		var s []string
		for _, l := range ls {
			s = append(s, fmt.Sprintf("t%d(%s zero=%v held=%v)", l.idx, l.root, l.zero, l.held))
		}
		return strings.Join(s, ",")
	}
	switch {
	case len(definite) > 0:
		if err == nil {
			return vs.Violf("C43", "create_despite_conflict", "create_despite_conflict",
				"Create(%s zero=%v) succeeded at now=%d although live locks conflict: %s", root, zero, m.now, desc(definite))
		}
		for _, l := range definite {
			if l.held && !l.inf && m.now > l.expiry {
				vs.G.Inc("probe.held_past_expiry_blocks")
			}
			if wdIsDesc(l.root, root) {
				vs.G.Inc("probe.conflict_descendant")
			} else if l.root != root {
				vs.G.Inc("probe.conflict_ancestor")
			}
		}
		return nil
	case len(boundary) > 0:
		vs.G.Inc("probe.boundary_call")
		if err != nil {
			return nil
		}
		for _, l := range boundary {
			l.dead = true
		}
	default:
		if err != nil {
			return vs.Violf("C43", "create_refused", "create_refused",
				"Create(%s zero=%v) failed with %v at now=%d although no live lock conflicts", root, zero, err, m.now)
		}
		for _, l := range m.locks {
			if !l.dead && l.conflicts(root, zero) {
				vs.G.Inc("probe.create_over_expired")
				break
			}
		}
	}
	if tok == "" || m.seen[tok] {
		return vs.Violf("C43", "token_not_unique", "token_not_unique", "Create returned token %q which is empty or was returned before", tok)
	}
	m.seen[tok] = true
	l := &lkLock{idx: len(m.locks), token: tok, root: root, zero: zero}
	if dur < 0 {
		l.inf = true
	} else {
		l.expiry = m.now + int64(dur)
	}
	m.locks = append(m.locks, l)
	m.byToken[tok] = l
	return nil
}

func (m *lkModel) pickToken(c vs.Chooser) string {
	if len(m.locks) == 0 || vs.Pct(c, 5) {
		return "bogus-token"
	}
	// bias to recent locks
	n := len(m.locks)
	if n > 4 && vs.Pct(c, 70) {
		return m.locks[n-1-c.Intn(4)].token
	}
	return m.locks[c.Intn(n)].token
}

func (m *lkModel) refresh(c vs.Chooser, client int) *vs.Violation {
	tok := m.pickToken(c)
	dur := vs.Pick(c, 2*time.Second, 0, time.Second, 5*time.Second, -1, time.Nanosecond)
	var err error
	if v := vs.Guard("C43", "panic_in_refresh", func() { _, err = m.ls.Refresh(lkTime(m.now), tok, dur) }); v != nil {
		m.tr.Ev("c%d refresh %s -> PANIC", client, m.tokName(tok))
		return v
	}
	m.tr.Ev("c%d refresh %s dur=%d -> %s", client, m.tokName(tok), dur, lkOK(err))
	l := m.byToken[tok]
	st := lkDead
	if l != nil {
		st = l.status(m.now)
	}
	apply := func() {
		if dur < 0 {
			l.inf = true
		} else {
			l.inf, l.expiry = false, m.now+int64(dur)
		}
	}
	switch {
	case st == lkDead:
		if err == nil {
			if l != nil && !l.dead {
				vs.G.Inc("probe.expired_refresh_attempt")
			}
			return vs.Violf("C43", "refresh_of_dead_lock", "refresh_of_dead_lock", "Refresh(%s) succeeded at now=%d but that lock is unknown, unlocked or past its expiry", m.tokName(tok), m.now)
		}
		if l != nil && !l.dead {
			vs.G.Inc("probe.expired_refresh_attempt")
		}
	case l.held:
		vs.G.Inc("probe.op_on_held")
		if err == nil {
			return vs.Violf("C43", "refresh_of_held_lock", "refresh_of_held_lock", "Refresh(%s) succeeded while the lock is held by a Confirm", m.tokName(tok))
		}
	case st == lkBoundary:
		vs.G.Inc("probe.boundary_call")
		if err == nil {
			apply()
		} else {
			l.dead = true
		}
	default:
		if err != nil {
			return vs.Violf("C43", "refresh_refused", "refresh_refused", "Refresh(%s) failed with %v at now=%d although the lock is live and not held", m.tokName(tok), err, m.now)
		}
		apply()
	}
	return nil
}

func (m *lkModel) unlock(c vs.Chooser, client int) *vs.Violation {
	tok := m.pickToken(c)
	var err error
	if v := vs.Guard("C43", "panic_in_unlock", func() { err = m.ls.Unlock(lkTime(m.now), tok) }); v != nil {
		m.tr.Ev("c%d unlock %s -> PANIC", client, m.tokName(tok))
		return v
	}
	m.tr.Ev("c%d unlock %s -> %s", client, m.tokName(tok), lkOK(err))
	l := m.byToken[tok]
	st := lkDead
	if l != nil {
		st = l.status(m.now)
	}
	switch {
	case st == lkDead:
		if err == nil {
			return vs.Violf("C43", "unlock_of_dead_lock", "unlock_of_dead_lock", "Unlock(%s) succeeded at now=%d but that lock is unknown, already unlocked or past its expiry", m.tokName(tok), m.now)
		}
	case l.held:
		vs.G.Inc("probe.op_on_held")
		if err == nil {
			return vs.Violf("C43", "unlock_of_held_lock", "unlock_of_held_lock", "Unlock(%s) succeeded while the lock is held by a Confirm", m.tokName(tok))
		}
	case st == lkBoundary:
		vs.G.Inc("probe.boundary_call")
		l.dead = true
	default:
		if err != nil {
			return vs.Violf("C43", "unlock_refused", "unlock_refused", "Unlock(%s) failed with %v at now=%d although the lock is live and not held", m.tokName(tok), err, m.now)
		}
		l.dead = true
	}
	return nil
}

func (m *lkModel) confirm(rt *rapid.T, c vs.Chooser, client int) *vs.Violation {
	names := []string{lkNames[c.Intn(len(lkNames))], ""}
	if vs.Pct(c, 40) {
		names[1] = lkNames[c.Intn(len(lkNames))]
	}
	if vs.Pct(c, 10) && names[1] != "" {
		names[0] = ""
	}
	var toks []string
	for i, n := 0, vs.Range(c, 1, 3); i < n; i++ {
		toks = append(toks, m.pickToken(c))
	}
	// make the lock covering a name likely to be among the conditions
	for _, nm := range names {
		if nm == "" || !vs.Pct(c, 60) {
			continue
		}
		for _, l := range m.locks {
			if l.status(m.now) != lkDead && l.covers(nm) {
				toks = append(toks, l.token)
			}
		}
	}
	has := func(t string) bool {
		for _, x := range toks {
			if x == t {
				return true
			}
		}
		return false
	}
	definiteFail := false
	var need, maybe []*lkLock
	addNeed := func(l *lkLock) {
		for _, x := range need {
			if x == l {
				return
			}
		}
		need = append(need, l)
	}
	why := ""
	for _, nm := range names {
		if nm == "" {
			continue
		}
		var cand *lkLock
		for _, l := range m.locks {
			if l.status(m.now) != lkDead && l.covers(nm) {
				if cand != nil {
					vs.Harnessf(rt, "C43 model: two live locks cover %s", nm)
				}
				cand = l
			}
		}
		switch {
		case cand == nil:
			definiteFail, why = true, why+fmt.Sprintf("[%s: no live lock covers it]", nm)
		case !has(cand.token):
			definiteFail, why = true, why+fmt.Sprintf("[%s: covered by t%d whose token was not submitted]", nm, cand.idx)
		case cand.held:
			definiteFail, why = true, why+fmt.Sprintf("[%s: covering lock t%d is already held]", nm, cand.idx)
			vs.G.Inc("probe.op_on_held")
		default:
			addNeed(cand)
		}
	}
	if !definiteFail {
		// keep only the conditions the doc comment leaves no latitude about:
		// the tokens of the locks that cover the names.
		toks = toks[:0]
		for _, l := range need {
			toks = append(toks, l.token)
			if l.status(m.now) == lkBoundary {
				maybe = append(maybe, l)
			}
		}
		if vs.Bool(c) && len(toks) == 2 {
			toks[0], toks[1] = toks[1], toks[0]
		}
	}
	conds := make([]Condition, len(toks))
	var tn []string
	for i, t := range toks {
		conds[i] = Condition{Token: t}
		tn = append(tn, m.tokName(t))
	}
	var rel func()
	var err error
	if v := vs.Guard("C43", "panic_in_confirm", func() { rel, err = m.ls.Confirm(lkTime(m.now), names[0], names[1], conds...) }); v != nil {
		m.tr.Ev("c%d confirm %q %q %v -> PANIC", client, names[0], names[1], tn)
		return v
	}
	m.tr.Ev("c%d confirm %q %q %v -> %s", client, names[0], names[1], tn, lkOK(err))
	if (rel == nil) == (err == nil) {
		return vs.Violf("C43", "confirm_result_shape", "confirm_result_shape", "Confirm returned release==nil:%v err=%v (exactly one must be non-nil)", rel == nil, err)
	}
	hold := func() {
		for _, l := range need {
			l.held = true
		}
		m.releases = append(m.releases, &lkRelease{client: client, fn: rel, locks: need})
		if len(need) == 2 {
			vs.G.Inc("probe.confirm_two_locks")
		}
	}
	switch {
	case definiteFail:
		if err == nil {
			return vs.Violf("C43", "confirm_should_fail", "confirm_should_fail", "Confirm(%q,%q,%v) succeeded at now=%d but %s", names[0], names[1], tn, m.now, why)
		}
	case len(maybe) > 0:
		vs.G.Inc("probe.boundary_call")
		if err == nil {
			hold()
		} else if len(maybe) == 1 {
			maybe[0].dead = true
		}
	default:
		if err != nil {
			return vs.Violf("C43", "confirm_refused", "confirm_refused", "Confirm(%q,%q,%v) failed with %v at now=%d although every name is covered by a live, unheld lock whose token was submitted", names[0], names[1], tn, err, m.now)
		}
		hold()
	}
	return nil
}

func (m *lkModel) release(c vs.Chooser) *vs.Violation {
	i := c.Intn(len(m.releases))
	r := m.releases[i]
	m.releases = append(m.releases[:i], m.releases[i+1:]...)
	var ids []string
	for _, l := range r.locks {
		ids = append(ids, fmt.Sprintf("t%d", l.idx))
		l.held = false
		if !l.inf && m.now > l.expiry {
			vs.G.Inc("probe.released_after_expiry")
		}
	}
	m.tr.Ev("c%d release %v", r.client, ids)
	return vs.Guard("C43", "panic_in_release", r.fn)
}

func (m *lkModel) advance(c vs.Chooser) {
	next := int64(-1)
	for _, l := range m.locks {
		if !l.dead && !l.inf && l.expiry > m.now && (next < 0 || l.expiry < next) {
			next = l.expiry
		}
	}
	d := int64(time.Second)
	k := c.Intn(8)
	switch {
	case k == 1 && next >= 0:
		d = next - m.now
	case k == 2 && next >= 0 && next-m.now > 1:
		d = next - m.now - 1
	case k == 3 && next >= 0:
		d = next - m.now + 1
	case k == 4:
		d = 1
	case k == 5:
		d = int64(2 * time.Second)
	case k == 6:
		d = int64(5 * time.Second)
	case k == 7:
		d = int64(500 * time.Millisecond)
	}
	m.now += d
	m.tr.Ev("advance %d -> %d", d, m.now)
}

// invariant reads memLS's own table (white-box) and checks the property's
// invariant on it: no two live locks cover a common resource. "Live" is
// judged by the harness (held, infinite, or now < expiry); a lock exactly at
// its expiry instant is left out.
func (m *lkModel) invariant() *vs.Violation {
	ml, ok := m.ls.(*memLS)
	if !ok {
		return nil
	}
	ml.mu.Lock()
	defer ml.mu.Unlock()
	var live []*memLSNode
	for _, n := range ml.byToken {
		if n.held || n.details.Duration < 0 || lkTime(m.now).Before(n.expiry) {
			live = append(live, n)
		}
	}
	sort.Slice(live, func(i, j int) bool { return live[i].token < live[j].token })
	for i, a := range live {
		la := lkLock{root: a.details.Root, zero: a.details.ZeroDepth}
		for _, b := range live[i+1:] {
			if la.conflicts(b.details.Root, b.details.ZeroDepth) {
				return vs.Violf("C43", "two_live_locks_overlap", "two_live_locks_overlap", "memLS holds live locks %s(%s zero=%v) and %s(%s zero=%v) covering a common resource at now=%d",
					m.tokName(a.token), a.details.Root, a.details.ZeroDepth, m.tokName(b.token), b.details.Root, b.details.ZeroDepth, m.now)
			}
		}
	}
	return nil
}

func lkRun(rt *rapid.T) {
	c := vs.RapidChooser{T: rt}
	tr := vs.NewTrace()
	for _, p := range []string{"probe.boundary_call", "probe.create_over_expired", "probe.op_on_held", "probe.held_past_expiry_blocks",
		"probe.released_after_expiry", "probe.confirm_two_locks", "probe.conflict_descendant", "probe.conflict_ancestor", "probe.expired_refresh_attempt"} {
		vs.G.Add(p, 0)
	}
	m := &lkModel{ls: NewMemLS(), byToken: map[string]*lkLock{}, seen: map[string]bool{}, tr: tr}
	nclients := vs.Range(c, 1, 3)
	nops := vs.Range(c, 1, vs.Thorough(40, 120))
	var viol *vs.Violation
	creates, others := 0, 0
	for op := 0; op < nops && viol == nil; op++ {
		client := c.Intn(nclients)
		k := c.Intn(20)
		switch {
		case k < 6 || len(m.locks) == 0:
			viol = m.create(c, client)
			creates++
		case k < 10:
			m.advance(c)
			continue
		case k < 13:
			viol = m.confirm(rt, c, client)
			others++
		case k < 15:
			if len(m.releases) == 0 {
				continue
			}
			viol = m.release(c)
			others++
		case k < 18:
			viol = m.refresh(c, client)
			others++
		default:
			viol = m.unlock(c, client)
			others++
		}
		if viol == nil {
			viol = m.invariant()
		}
	}
	vs.G.EndRun(tr, creates > 0 && others > 0, time.Duration(m.now), func() any {
		return map[string]any{"clients": nclients, "events": tr.Log[:min(len(tr.Log), 40)]}
	})
	vs.Report(rt, wdFilter(viol), tr)
}

func TestVerif_C43(t *testing.T) { vs.Check(t, lkRun) }
