// Engine webdavsim, part 3: FaultFS and C46 — COPY/MOVE through the real
// Handler on memFS (config "clean") and on FaultFS{memFS} (config "fault"),
// judged only by snapshots of the tree before and after each request.

package webdav

import (
	"context"
	"encoding/xml"
	"fmt"
	"io"
	"net/http"
	"net/http/httptest"
	"net/url"
	"os"
	"path"
	"sort"
	"strings"
	"syscall"
	"testing"
	"time"

	vs "golang.org/x/net/internal/verifsim"
	"pgregory.net/rapid"
)

// ---------------------------------------------------------------------------
// FaultFS: wraps a FileSystem; while armed it fails the FileSystem/File calls
// whose (per-arming) index is in the fault plan. A failed call is not performed
// (except Close, which closes and then reports the error, and a short write,
// which writes a prefix). Readdir results are sorted by name so that the call
// sequence, and therefore which call a planned fault hits, does not depend on
// memFS's map iteration order.

const (
	ffEIO = iota
	ffENOSPC
	ffEACCES
	ffShort
)

var ffKindName = []string{"eio", "enospc", "eacces", "shortwrite"}

type ffFS struct {
	inner FileSystem
	armed bool
	calls int
	wcall int
	plan  map[int]int // call index (or ffWriteBase + write index) -> kind
	fired []string
}

func (f *ffFS) arm(plan map[int]int) {
	f.armed, f.calls, f.wcall, f.plan, f.fired = true, 0, 0, plan, nil
}

const ffWriteBase = 1000 // plan keys >= ffWriteBase address the n-th Write call
func (f *ffFS) disarm()  { f.armed = false }

// hit reports whether the current call must fail, and how.
func (f *ffFS) hit(op, name string, isWrite bool) (error, bool) {
	if !f.armed {
		return nil, false
	}
	i := f.calls
	f.calls++
	k, ok := f.plan[i]
	if isWrite {
		if kw, okw := f.plan[ffWriteBase+f.wcall]; okw && !ok {
			k, ok = kw, true
		}
		f.wcall++
	}
	if !ok {
		return nil, false
	}
	short := false
	if k == ffShort {
		if isWrite {
			short = true
		} else {
			k = ffEIO
		}
	}
	vs.G.Inc("fault." + ffKindName[k])
	f.fired = append(f.fired, fmt.Sprintf("#%d %s %s", i, op, ffKindName[k]))
	errno := []syscall.Errno{syscall.EIO, syscall.ENOSPC, syscall.EACCES, syscall.ENOSPC}[k]
	return &os.PathError{Op: op, Path: name, Err: errno}, short
}

func (f *ffFS) Mkdir(ctx context.Context, name string, perm os.FileMode) error {
	if err, _ := f.hit("mkdir", name, false); err != nil {
		return err
	}
	return f.inner.Mkdir(ctx, name, perm)
}

func (f *ffFS) OpenFile(ctx context.Context, name string, flag int, perm os.FileMode) (File, error) {
	if err, _ := f.hit("open", name, false); err != nil {
		return nil, err
	}
	in, err := f.inner.OpenFile(ctx, name, flag, perm)
	if err != nil {
		return nil, err
	}
	ff := &ffFile{fs: f, in: in, name: name}
	if _, ok := in.(DeadPropsHolder); ok {
		return &ffPropsFile{ff}, nil
	}
	return ff, nil
}

func (f *ffFS) RemoveAll(ctx context.Context, name string) error {
	if err, _ := f.hit("removeall", name, false); err != nil {
		return err
	}
	return f.inner.RemoveAll(ctx, name)
}

func (f *ffFS) Rename(ctx context.Context, oldName, newName string) error {
	if err, _ := f.hit("rename", oldName, false); err != nil {
		return err
	}
	return f.inner.Rename(ctx, oldName, newName)
}

func (f *ffFS) Stat(ctx context.Context, name string) (os.FileInfo, error) {
	if err, _ := f.hit("stat", name, false); err != nil {
		return nil, err
	}
	return f.inner.Stat(ctx, name)
}

type ffFile struct {
	fs   *ffFS
	in   File
	name string
}

func (f *ffFile) Close() error {
	err, _ := f.fs.hit("close", f.name, false)
	cerr := f.in.Close()
	if err != nil {
		return err
	}
	return cerr
}

func (f *ffFile) Read(p []byte) (int, error) {
	if err, _ := f.fs.hit("read", f.name, false); err != nil {
		return 0, err
	}
	return f.in.Read(p)
}

func (f *ffFile) Write(p []byte) (int, error) {
	err, short := f.fs.hit("write", f.name, true)
	if err != nil {
		if short && len(p) > 1 {
			n, werr := f.in.Write(p[:len(p)/2])
			if werr != nil {
				return n, werr
			}
			return n, err
		}
		return 0, err
	}
	return f.in.Write(p)
}

func (f *ffFile) Seek(off int64, whence int) (int64, error) { return f.in.Seek(off, whence) }

func (f *ffFile) Readdir(count int) ([]os.FileInfo, error) {
	if err, _ := f.fs.hit("readdir", f.name, false); err != nil {
		return nil, err
	}
	fis, err := f.in.Readdir(count)
	sort.Slice(fis, func(i, j int) bool { return fis[i].Name() < fis[j].Name() })
	return fis, err
}

func (f *ffFile) Stat() (os.FileInfo, error) {
	if err, _ := f.fs.hit("fstat", f.name, false); err != nil {
		return nil, err
	}
	return f.in.Stat()
}

type ffPropsFile struct{ *ffFile }

func (f *ffPropsFile) DeadProps() (map[xml.Name]Property, error) {
	if err, _ := f.fs.hit("deadprops", f.name, false); err != nil {
		return nil, err
	}
	return f.in.(DeadPropsHolder).DeadProps()
}

func (f *ffPropsFile) Patch(p []Proppatch) ([]Propstat, error) {
	if err, _ := f.fs.hit("patch", f.name, false); err != nil {
		return nil, err
	}
	return f.in.(DeadPropsHolder).Patch(p)
}

// ---------------------------------------------------------------------------
// Snapshots (taken on the unwrapped file system).

type cmNode struct {
	dir   bool
	data  string
	props string
}

func cmPropsString(m map[xml.Name]Property) string {
	var ss []string
	for n, p := range m {
		ss = append(ss, fmt.Sprintf("{%s}%s[%s]=%s", n.Space, n.Local, p.Lang, p.InnerXML))
	}
	sort.Strings(ss)
	return strings.Join(ss, ";")
}

func cmSnap(ctx context.Context, fs FileSystem) (map[string]cmNode, error) {
	out := map[string]cmNode{}
	var walk func(p string) error
	walk = func(p string) error {
		f, err := fs.OpenFile(ctx, p, os.O_RDONLY, 0)
		if err != nil {
			return fmt.Errorf("open %s: %v", p, err)
		}
		defer f.Close()
		fi, err := f.Stat()
		if err != nil {
			return err
		}
		n := cmNode{dir: fi.IsDir()}
		if h, ok := f.(DeadPropsHolder); ok {
			m, err := h.DeadProps()
			if err != nil {
				return err
			}
			n.props = cmPropsString(m)
		}
		if !n.dir {
			b, err := io.ReadAll(f)
			if err != nil {
				return err
			}
			n.data = string(b)
			out[p] = n
			return nil
		}
		out[p] = n
		cs, err := f.Readdir(-1)
		if err != nil {
			return err
		}
		for _, c := range cs {
			if err := walk(path.Join(p, c.Name())); err != nil {
				return err
			}
		}
		return nil
	}
	return out, walk("/")
}

func cmSorted(m map[string]cmNode) []string {
	ks := make([]string, 0, len(m))
	for k := range m {
		ks = append(ks, k)
	}
	sort.Strings(ks)
	return ks
}

func (n cmNode) String() string {
	if n.dir {
		return fmt.Sprintf("dir{props:%s}", n.props)
	}
	return fmt.Sprintf("file{%q props:%s}", n.data, n.props)
}

// cmRelation classifies the cleaned destination against the cleaned source.
func cmRelation(srcRaw, srcClean, dstRaw, dstClean string, dstKnown bool) string {
	switch {
	case !dstKnown:
		return "dest_unparsable"
	case dstClean == srcClean && dstRaw == srcRaw:
		return "dest_same_spelling"
	case dstClean == srcClean:
		return "dest_equiv_source"
	case wdIsDesc(dstClean, srcClean):
		return "dest_inside_source"
	case wdIsDesc(srcClean, dstClean):
		return "dest_ancestor_of_source"
	}
	return "dest_disjoint"
}

func cmShort(s string) string {
	if len(s) > 900 {
		return s[:900] + "…"
	}
	return s
}

// cmCheck is the C46 oracle.
func cmCheck(method, rel, srcClean, dstClean string, before, after map[string]cmNode, status int) *vs.Violation {
	var changed []string
	nsrc := 0
	for _, p := range cmSorted(before) {
		if !wdUnder(p, srcClean) {
			continue
		}
		nsrc++
		if method == "COPY" && rel == "dest_inside_source" && wdUnder(p, dstClean) {
			continue // the destination itself may legitimately change
		}
		a, ok := after[p]
		switch {
		case !ok:
			changed = append(changed, fmt.Sprintf("%s: %v -> missing", p, before[p]))
		case a != before[p]:
			changed = append(changed, fmt.Sprintf("%s: %v -> %v", p, before[p], a))
		}
	}
	if nsrc == 0 || len(changed) == 0 {
		return nil
	}
	lm := strings.ToLower(method)
	if method == "COPY" {
		return vs.Violf("C46", "copy_source_changed:"+rel, "copy:"+rel,
			"COPY %s -> %s (status %d) changed the source: %s", srcClean, dstClean, status, cmShort(strings.Join(changed, "; ")))
	}
	// MOVE: the source changed; then it must have been moved intact.
	var bad []string
	for _, p := range cmSorted(after) {
		if wdUnder(p, srcClean) {
			bad = append(bad, p+" still exists")
		}
	}
	want := map[string]cmNode{}
	for p, n := range before {
		if wdUnder(p, srcClean) {
			rest := p[len(srcClean):]
			if srcClean == "/" {
				rest = p
			}
			want[slashClean(dstClean+rest)] = n
		}
	}
	if srcClean == "/" {
		bad = append(bad, "source is the root")
	}
	for _, p := range cmSorted(want) {
		if a, ok := after[p]; !ok {
			bad = append(bad, p+" missing at the destination")
		} else if a != want[p] {
			bad = append(bad, fmt.Sprintf("%s at the destination is %v, want %v", p, a, want[p]))
		}
	}
	for _, p := range cmSorted(after) {
		if _, ok := want[p]; !ok && wdUnder(p, dstClean) {
			bad = append(bad, p+" is extra at the destination")
		}
	}
	if len(bad) == 0 {
		return nil
	}
	return vs.Violf("C46", "move_source_lost:"+rel, lm+":"+rel,
		"MOVE %s -> %s (status %d): the source changed (%s) but the destination does not hold the former source tree (%s)",
		srcClean, dstClean, status, cmShort(strings.Join(changed, "; ")), cmShort(strings.Join(bad, "; ")))
}

// ---------------------------------------------------------------------------
// Workload

type cmLock struct {
	client int
	token  string
	root   string
	zero   bool
}

type cmSim struct {
	ctx    context.Context
	mem    FileSystem
	ffs    *ffFS
	ls     LockSystem
	h      *Handler
	locks  []cmLock
	tr     *vs.Trace
	lastEr error
	stop   bool
}

var cmNames = []string{"a", "b", "c", "d e"}

func cmEsc(p string) string { return (&url.URL{Path: p}).EscapedPath() }

func (s *cmSim) build(c vs.Chooser) {
	dirs := []string{"/"}
	n := vs.Range(c, 1, 6)
	seq := 0
	for i := 0; i < n; i++ {
		par := dirs[c.Intn(len(dirs))]
		p := path.Join(par, cmNames[c.Intn(len(cmNames))])
		isDir := vs.Bool(c)
		if isDir {
			if s.mem.Mkdir(s.ctx, p, 0777) != nil {
				continue
			}
			dirs = append(dirs, p)
		} else {
			f, err := s.mem.OpenFile(s.ctx, p, os.O_RDWR|os.O_CREATE|os.O_EXCL, 0666)
			if err != nil {
				continue
			}
			seq++
			fmt.Fprintf(f, "data%d", seq)
			f.Close()
		}
		s.tr.Ev("tree %s dir=%v", p, isDir)
		if vs.Pct(c, 35) {
			f, err := s.mem.OpenFile(s.ctx, p, os.O_RDONLY, 0)
			if err == nil {
				seq++
				f.(DeadPropsHolder).Patch([]Proppatch{{Props: []Property{{
					XMLName:  xml.Name{Space: "urn:v", Local: vs.Pick(c, "p", "q")},
					InnerXML: []byte(fmt.Sprintf("v%d", seq)),
				}}}})
				f.Close()
				s.tr.Ev("tree %s has a dead property", p)
			}
		}
	}
}

func (s *cmSim) existing(snap map[string]cmNode, c vs.Chooser, wantDir bool) string {
	var ps []string
	for _, p := range cmSorted(snap) {
		if p != "/" && (!wantDir || snap[p].dir) {
			ps = append(ps, p)
		}
	}
	if len(ps) == 0 {
		return ""
	}
	return ps[c.Intn(len(ps))]
}

// spell returns a (possibly non-canonical) path spelling of clean path p,
// not yet percent-escaped.
func cmSpellPath(c vs.Chooser, p string) string {
	switch c.Intn(12) {
	case 1:
		return p + "/"
	case 2:
		return "/." + p
	case 3:
		return p + "/."
	case 4:
		return "/zz/.." + p
	case 5:
		return p + "/x/.."
	case 6:
		return strings.Replace(p, "/", "//", 1)
	case 7:
		if i := strings.LastIndex(p, "/"); i > 0 {
			return p[:i] + "/./" + p[i+1:]
		}
	}
	return p
}

func (s *cmSim) genDestination(c vs.Chooser, snap map[string]cmNode, src string) (hdr string, present bool) {
	srcClean := slashClean(src)
	var t string
	k := c.Intn(20)
	switch {
	case k < 6: // fresh name next to something that exists
		par := "/"
		if d := s.existing(snap, c, true); d != "" && vs.Bool(c) {
			par = d
		}
		if wdUnder(par, srcClean) && !vs.Pct(c, 15) {
			par = "/" // a COPY into an existing sub-collection of the source recurses to the limit (slow); keep it rare
		}
		t = path.Join(par, vs.Pick(c, "n", "m", "a", "b"))
	case k < 9: // an existing resource
		if t = s.existing(snap, c, false); t == "" {
			t = "/n"
		}
	case k < 12: // the source itself
		t = srcClean
	case k < 15: // inside the source
		t = path.Join(srcClean, vs.Pick(c, "n", "m", "n/m", "n", "m", "n", "m", "n", "a"))
		if vs.Pct(c, 3) {
			for _, p := range cmSorted(snap) {
				if wdIsDesc(p, srcClean) {
					t = p
					break
				}
			}
		}
	case k < 17: // an ancestor of the source
		t = path.Dir(srcClean)
		if vs.Bool(c) {
			t = path.Dir(t)
		}
	case k < 18:
		t = "/"
	case k < 19: // parent does not exist
		t = "/nope/x"
	default:
		switch c.Intn(4) {
		case 0:
			return "", false
		case 1:
			return "%zz", true
		case 2:
			return "http://[::1", true
		default:
			return "", true
		}
	}
	sp := cmSpellPath(c, t)
	esc := cmEsc(sp)
	if vs.Pct(c, 12) {
		// percent-encode one unreserved letter or a dot
		for i := 0; i < len(esc); i++ {
			if ch := esc[i]; ch == '.' || ch >= 'a' && ch <= 'z' {
				esc = esc[:i] + fmt.Sprintf("%%%02X", ch) + esc[i+1:]
				break
			}
		}
	}
	switch c.Intn(12) {
	case 1, 2:
		return "http://example.com" + esc, true
	case 3:
		return "http://other.example" + esc, true
	case 4:
		return "//example.com" + esc, true
	case 5:
		return strings.TrimPrefix(esc, "/"), true // relative reference
	case 6:
		return esc + "?x=1", true
	case 7:
		return esc + "#frag", true
	}
	return esc, true
}

func (s *cmSim) ifHeader(c vs.Chooser, client int) (string, string) {
	var own, all []cmLock
	for _, l := range s.locks {
		all = append(all, l)
		if l.client == client {
			own = append(own, l)
		}
	}
	name := func(l cmLock) string {
		for i, x := range s.locks {
			if x.token == l.token {
				return fmt.Sprintf("L%d", i)
			}
		}
		return "?"
	}
	k := c.Intn(10)
	if len(all) == 0 && !vs.Pct(c, 5) {
		return "", ""
	}
	switch {
	case k < 4:
		return "", ""
	case k < 9 && len(own) > 0:
		var hs, ns []string
		for _, l := range own {
			hs = append(hs, "<"+l.token+">")
			ns = append(ns, name(l))
		}
		switch c.Intn(3) {
		case 0:
			return "(" + strings.Join(hs, " ") + ")", "(" + strings.Join(ns, " ") + ")"
		case 1:
			return "(" + strings.Join(hs, ") (") + ")", "(" + strings.Join(ns, ") (") + ")"
		default:
			l := own[c.Intn(len(own))]
			return "<http://example.com" + cmEsc(l.root) + "> (<" + l.token + ">)", "<" + l.root + "> (" + name(l) + ")"
		}
	case k < 9 && len(all) > 0:
		l := all[c.Intn(len(all))] // somebody else's token
		return "(<" + l.token + ">)", "(stolen " + name(l) + ")"
	}
	return "(<bogus-token>)", "(bogus)"
}

func (s *cmSim) request(rt *rapid.T, c vs.Chooser, client int, fault bool) (*vs.Violation, bool) {
	before, err := cmSnap(s.ctx, s.mem)
	if err != nil {
		vs.Harnessf(rt, "snapshot before: %v", err)
	}
	method := vs.Pick(c, "COPY", "MOVE")
	// source
	src := s.existing(before, c, false)
	existingSrc := src != ""
	switch k := c.Intn(20); {
	case k == 0 || src == "":
		src, existingSrc = "/nosuch", false
	case k == 1:
		src = "/"
	case k < 4:
		src = cmSpellPath(c, src)
	}
	hdr, present := s.genDestination(c, before, src)
	r := httptest.NewRequest(method, "/", nil)
	r.URL.Path = src
	r.URL.RawPath = ""
	desc := fmt.Sprintf("c%d %s %q", client, method, src)
	if present {
		r.Header.Set("Destination", hdr)
		desc += fmt.Sprintf(" Destination=%q", hdr)
	}
	if ow := vs.Pick(c, "", "T", "F", "T", "T", "F", "t", "x"); ow != "" {
		r.Header.Set("Overwrite", ow)
		desc += " Overwrite=" + ow
	}
	if d := vs.Pick(c, "", "", "", "", "", "", "infinity", "infinity", "0", "0", "1", "bogus"); d != "" {
		r.Header.Set("Depth", d)
		desc += " Depth=" + d
	}
	if ih, in := s.ifHeader(c, client); ih != "" {
		r.Header.Set("If", ih)
		desc += " If=" + in
	}
	if fault {
		plan := map[int]int{}
		for i, n := 0, vs.Range(c, 1, 3); i < n; i++ {
			if vs.Pct(c, 15) {
				plan[ffWriteBase+c.Intn(2)] = vs.Pick(c, ffShort, ffENOSPC, ffEIO)
			} else {
				plan[vs.Pick(c, 0, 1, 2, 3, 4, 5, 6, 7, 8, 10, 12, 16, 24)] = c.Intn(4)
			}
		}
		s.ffs.arm(plan)
	}
	s.lastEr = nil
	w := httptest.NewRecorder()
	pv := vs.Guard("C46", strings.ToLower(method)+":panic", func() { s.h.ServeHTTP(w, r) })
	s.ffs.disarm()
	s.tr.Ev("%s -> %d", desc, w.Code)
	for _, f := range s.ffs.fired {
		s.tr.Ev("   fault %s", f)
	}
	if pv != nil {
		return pv, existingSrc
	}
	after, err := cmSnap(s.ctx, s.mem)
	if err != nil {
		return vs.Violf("C46", "tree_unreadable", strings.ToLower(method)+":tree_unreadable", "after %s the tree cannot be walked: %v", desc, err), existingSrc
	}
	srcClean := slashClean(src)
	dstClean, dstRaw, dstKnown := "", "", false
	if present {
		if u, err := url.Parse(hdr); err == nil {
			dstKnown, dstRaw, dstClean = true, u.Path, slashClean(u.Path)
		}
	}
	rel := cmRelation(src, srcClean, dstRaw, dstClean, dstKnown)
	vs.G.Inc(fmt.Sprintf("status.%s.%d", method, w.Code))
	if existingSrc {
		vs.G.Inc("probe." + rel)
	}
	switch {
	case w.Code == http.StatusCreated || w.Code == http.StatusNoContent:
		vs.G.Inc("probe." + strings.ToLower(method) + "_2xx")
		if _, ok := before[dstClean]; ok && dstKnown {
			vs.G.Inc("probe.overwrote_existing")
		}
	case w.Code == StatusLocked || w.Code == http.StatusPreconditionFailed && r.Header.Get("If") != "":
		vs.G.Inc("probe.lock_refused")
	case w.Code == http.StatusPreconditionFailed:
		vs.G.Inc("probe.overwrite_f_refused")
	}
	if s.lastEr == errRecursionTooDeep {
		vs.G.Inc("probe.recursion_limit")
		s.stop = true // the tree is now ~1000 levels deep; further snapshots are slow
	}
	if !dstKnown {
		dstClean = "\x00" // matches nothing
	}
	return cmCheck(method, rel, srcClean, dstClean, before, after, w.Code), existingSrc
}

func cmRun(rt *rapid.T) {
	c := vs.RapidChooser{T: rt}
	tr := vs.NewTrace()
	fault := vs.Config() == "fault"
	for _, p := range []string{"probe.copy_2xx", "probe.move_2xx", "probe.lock_refused", "probe.overwrite_f_refused", "probe.overwrote_existing",
		"probe.dest_equiv_source", "probe.dest_same_spelling", "probe.dest_inside_source", "probe.dest_ancestor_of_source", "probe.dest_disjoint",
		"probe.dest_unparsable", "probe.recursion_limit"} {
		vs.G.Add(p, 0)
	}
	if fault {
		for _, k := range ffKindName {
			vs.G.Add("fault."+k, 0)
		}
	}
	s := &cmSim{ctx: context.Background(), mem: NewMemFS(), ls: NewMemLS(), tr: tr}
	s.ffs = &ffFS{inner: s.mem}
	s.h = &Handler{FileSystem: s.ffs, LockSystem: s.ls, Logger: func(_ *http.Request, err error) { s.lastEr = err }}
	s.build(c)
	nclients := vs.Range(c, 1, 3)
	snap, err := cmSnap(s.ctx, s.mem)
	if err != nil {
		vs.Harnessf(rt, "snapshot: %v", err)
	}
	for i, n := 0, vs.Pick(c, 0, 0, 0, 1, 1, 2); i < n; i++ {
		root := s.existing(snap, c, false)
		if root == "" || vs.Pct(c, 35) {
			root = vs.Pick(c, "/", "/n", "/", "/a/n")
		}
		l := cmLock{client: c.Intn(nclients), root: root, zero: vs.Bool(c)}
		if root == "/" {
			l.zero = false
		}
		tok, err := s.ls.Create(time.Now(), LockDetails{Root: root, Duration: infiniteTimeout, ZeroDepth: l.zero})
		if err != nil {
			continue
		}
		l.token = tok
		s.locks = append(s.locks, l)
		tr.Ev("lock L%d by c%d on %s zero=%v", len(s.locks)-1, l.client, root, l.zero)
	}
	var viol *vs.Violation
	work, fired := 0, 0
	nreq := vs.Range(c, 1, vs.Thorough(3, 6))
	for i := 0; i < nreq && viol == nil && !s.stop; i++ {
		var real bool
		viol, real = s.request(rt, c, c.Intn(nclients), fault)
		if real {
			work++
		}
		fired += len(s.ffs.fired)
	}
	vs.G.EndRun(tr, work > 0 && (!fault || fired > 0), 0, func() any {
		return map[string]any{"config": vs.Config(), "events": tr.Log[:min(len(tr.Log), 40)]}
	})
	vs.Report(rt, wdFilter(viol), tr)
}

func TestVerif_C46(t *testing.T) { vs.Check(t, cmRun) }
