package verifsim

import (
	"net"
	"net/netip"
	"sort"
	"sync"
	"time"
)

// PacketNet: a simulated datagram network. Each node is a net.PacketConn bound
// to an address. A datagram written by a node gets a fate (deliver / drop /
// duplicate / extra delay / corrupt / truncate) and a latency that are a pure
// function of (run seed, source node, per-source sequence number), so they do
// not depend on the order in which two connections happened to call WriteTo.
// Datagrams in transit become deliverable when simulated time reaches their
// arrival instant; the scheduler then delivers them one at a time.

// Fate of one datagram.
type Fate struct {
	Drop     bool
	Dup      bool          // deliver a second copy
	Extra    time.Duration // extra delay (reordering)
	DupExtra time.Duration
	FlipByte int // >=0: corrupt this byte (mod len)
	FlipBit  uint8
	Truncate int // >0: cut to this many bytes (if shorter than the datagram)
}

// PacketFaults configures the fault model of a run.
type PacketFaults struct {
	Seed        uint64
	BaseLatency time.Duration
	Jitter      time.Duration
	LossPct     int // i.i.d. loss
	DupPct      int
	ReorderPct  int // extra delay of up to ReorderMax
	ReorderMax  time.Duration
	CorruptPct  int
	TruncPct    int
	// Burst-loss / partition windows (relative to run start): everything sent
	// inside a window is dropped.
	Partitions [][2]time.Duration
	// HealAt: no fault is injected on datagrams sent after this instant
	// (0 = faults for the whole run).
	HealAt time.Duration
	// MaxFaultDatagramLen: if >0, only datagrams up to this size are eligible
	// for faults (unused by default).
	FirstN int // if >0 only the first N datagrams of each source are eligible for faults
}

type dgramInTransit struct {
	at   time.Time
	seq  uint64 // global enqueue order (ties)
	from netip.AddrPort
	to   netip.AddrPort
	b    []byte
	note string
	// srcSeq is the datagram's number at its sender (0 for injected ones);
	// copyNo distinguishes the duplicate from the original
	srcSeq uint64
	copyNo int
}

type PacketNet struct {
	sim    *Sim
	F      PacketFaults
	mu     sync.Mutex
	nodes  map[netip.AddrPort]*PacketNode
	order  []*PacketNode
	flight []*dgramInTransit
	nseq   uint64
	start  time.Time

	// OnSend is called (with the net's lock NOT held) for every datagram a node
	// writes, before the fate is applied: wire monitors see what the endpoint
	// put on the wire. OnDeliver is called when a datagram is handed to the
	// destination node.
	OnSend    func(from, to netip.AddrPort, b []byte)
	OnDeliver func(from, to netip.AddrPort, b []byte)

	// DecideOverride, if set, replaces the hashed fate (used by engines that
	// place faults at specific protocol phases).
	DecideOverride func(from, to netip.AddrPort, srcSeq uint64, b []byte, f Fate) Fate

	Sent, Delivered, Dropped int64
}

type PacketNode struct {
	net    *PacketNet
	addr   netip.AddrPort
	mu     sync.Mutex
	cond   *sync.Cond
	rq     []*dgramInTransit
	closed bool
	seq    uint64
	index  int
}

func NewPacketNet(sim *Sim, f PacketFaults) *PacketNet {
	n := &PacketNet{sim: sim, F: f, nodes: map[netip.AddrPort]*PacketNode{}, start: time.Now()}
	sim.AddSource(n)
	return n
}

// Node creates a node bound to addr (e.g. "10.0.0.1:443").
func (n *PacketNet) Node(addr string) *PacketNode {
	ap := netip.MustParseAddrPort(addr)
	nd := &PacketNode{net: n, addr: ap}
	nd.cond = sync.NewCond(&nd.mu)
	n.mu.Lock()
	nd.index = len(n.order)
	n.nodes[ap] = nd
	n.order = append(n.order, nd)
	n.mu.Unlock()
	return nd
}

func mix64(z uint64) uint64 {
	z += 0x9e3779b97f4a7c15
	z = (z ^ (z >> 30)) * 0xbf58476d1ce4e5b9
	z = (z ^ (z >> 27)) * 0x94d049bb133111eb
	return z ^ (z >> 31)
}

type hrng struct{ s uint64 }

func (h *hrng) next() uint64 { h.s = mix64(h.s); return h.s }
func (h *hrng) pct(p int) bool {
	if p <= 0 {
		return false
	}
	return int(h.next()%100) < p
}
func (h *hrng) dur(max time.Duration) time.Duration {
	if max <= 0 {
		return 0
	}
	return time.Duration(h.next() % uint64(max))
}

// decide computes latency and fate for datagram number srcSeq of node idx.
func (n *PacketNet) decide(idx int, srcSeq uint64, size int, sentAt time.Duration) (time.Duration, Fate) {
	h := &hrng{s: n.F.Seed ^ (uint64(idx+1) * 0x100000001b3) ^ (srcSeq * 0x9e3779b97f4a7c15)}
	lat := n.F.BaseLatency + h.dur(n.F.Jitter+1)
	f := Fate{FlipByte: -1}
	faulty := n.F.HealAt == 0 || sentAt < n.F.HealAt
	if n.F.FirstN > 0 && srcSeq > uint64(n.F.FirstN) {
		faulty = false
	}
	// draw all decisions unconditionally so that enabling one fault kind does
	// not shift the others
	loss, dup, reo, cor, tr := h.pct(n.F.LossPct), h.pct(n.F.DupPct), h.pct(n.F.ReorderPct), h.pct(n.F.CorruptPct), h.pct(n.F.TruncPct)
	extra, dupExtra := h.dur(n.F.ReorderMax), h.dur(n.F.ReorderMax+n.F.Jitter+1)
	fb, bit, tl := h.next(), h.next(), h.next()
	if !faulty {
		return lat, f
	}
	for _, w := range n.F.Partitions {
		if sentAt >= w[0] && sentAt < w[1] {
			f.Drop = true
		}
	}
	if loss {
		f.Drop = true
	}
	if dup {
		f.Dup = true
		f.DupExtra = dupExtra
	}
	if reo {
		f.Extra = extra
	}
	if cor && size > 0 {
		f.FlipByte = int(fb % uint64(size))
		f.FlipBit = uint8(bit % 8)
	}
	if tr && size > 1 {
		f.Truncate = 1 + int(tl%uint64(size-1))
	}
	return lat, f
}

func (n *PacketNet) enqueue(d *dgramInTransit) {
	n.nseq++
	d.seq = n.nseq
	n.flight = append(n.flight, d)
}

// ---- net.PacketConn ----

func (nd *PacketNode) WriteTo(b []byte, addr net.Addr) (int, error) {
	nd.mu.Lock()
	if nd.closed {
		nd.mu.Unlock()
		return 0, net.ErrClosed
	}
	nd.seq++
	srcSeq := nd.seq
	nd.mu.Unlock()
	var to netip.AddrPort
	switch a := addr.(type) {
	case *net.UDPAddr:
		to = a.AddrPort()
	default:
		to = netip.MustParseAddrPort(addr.String())
	}
	to = netip.AddrPortFrom(to.Addr().Unmap(), to.Port())
	n := nd.net
	if n.OnSend != nil {
		n.OnSend(nd.addr, to, b)
	}
	now := time.Now()
	lat, f := n.decide(nd.index, srcSeq, len(b), now.Sub(n.start))
	if n.DecideOverride != nil {
		f = n.DecideOverride(nd.addr, to, srcSeq, b, f)
	}
	n.mu.Lock()
	n.Sent++
	G.Inc("net.datagrams_sent")
	if f.Drop {
		n.Dropped++
		G.Inc("fault.datagram_loss")
	} else {
		p := append([]byte(nil), b...)
		note := ""
		if f.Truncate > 0 && f.Truncate < len(p) {
			p = p[:f.Truncate]
			G.Inc("fault.datagram_truncated")
			note = "trunc"
		}
		if f.FlipByte >= 0 && len(p) > 0 {
			p[f.FlipByte%len(p)] ^= 1 << f.FlipBit
			G.Inc("fault.datagram_corrupted")
			note = "corrupt"
		}
		if f.Extra > 0 {
			G.Inc("fault.datagram_reordered")
		}
		n.enqueue(&dgramInTransit{at: now.Add(lat + f.Extra), from: nd.addr, to: to, b: p, note: note, srcSeq: srcSeq})
		if f.Dup {
			G.Inc("fault.datagram_duplicated")
			n.enqueue(&dgramInTransit{at: now.Add(lat + f.DupExtra), from: nd.addr, to: to, b: append([]byte(nil), p...), note: "dup", srcSeq: srcSeq, copyNo: 1})
		}
	}
	n.mu.Unlock()
	n.sim.Wake()
	return len(b), nil
}

// Inject puts a datagram (e.g. from an attacker with a spoofed source) on the
// network with the given delay, bypassing the fault model.
func (n *PacketNet) Inject(from, to netip.AddrPort, b []byte, delay time.Duration) {
	n.mu.Lock()
	n.enqueue(&dgramInTransit{at: time.Now().Add(delay), from: from, to: to, b: append([]byte(nil), b...), note: "inject"})
	n.mu.Unlock()
	n.sim.Wake()
}

func (nd *PacketNode) ReadFrom(p []byte) (int, net.Addr, error) {
	nd.mu.Lock()
	defer nd.mu.Unlock()
	for {
		if nd.closed {
			return 0, nil, net.ErrClosed
		}
		if len(nd.rq) > 0 {
			d := nd.rq[0]
			nd.rq = nd.rq[1:]
			n := copy(p, d.b)
			return n, net.UDPAddrFromAddrPort(d.from), nil
		}
		nd.cond.Wait()
	}
}

func (nd *PacketNode) Close() error {
	nd.mu.Lock()
	nd.closed = true
	nd.cond.Broadcast()
	nd.mu.Unlock()
	return nil
}

func (nd *PacketNode) LocalAddr() net.Addr                { return net.UDPAddrFromAddrPort(nd.addr) }
func (nd *PacketNode) AddrPort() netip.AddrPort           { return nd.addr }
func (nd *PacketNode) SetDeadline(t time.Time) error      { return nil }
func (nd *PacketNode) SetReadDeadline(t time.Time) error  { return nil }
func (nd *PacketNode) SetWriteDeadline(t time.Time) error { return nil }

// ---- Source ----

func (n *PacketNet) sortFlight() {
	sort.SliceStable(n.flight, func(i, j int) bool {
		a, b := n.flight[i], n.flight[j]
		if !a.at.Equal(b.at) {
			return a.at.Before(b.at)
		}
		// Ties (frequent: simulated time only advances when everything is idle) are
		// broken by who sent the datagram and its number at that sender, not by the
		// order in which the senders' goroutines happened to reach the network.
		if c := a.from.Compare(b.from); c != 0 {
			return c < 0
		}
		if a.srcSeq != b.srcSeq {
			return a.srcSeq < b.srcSeq
		}
		if a.copyNo != b.copyNo {
			return a.copyNo < b.copyNo
		}
		return a.seq < b.seq
	})
}

// Events: the earliest due datagram is deliverable (datagrams become due in
// arrival-time order; reordering is expressed through the arrival times).
func (n *PacketNet) Events(now time.Time) []Event {
	n.mu.Lock()
	defer n.mu.Unlock()
	if len(n.flight) == 0 {
		return nil
	}
	n.sortFlight()
	d := n.flight[0]
	if d.at.After(now) {
		return nil
	}
	return []Event{{Label: "net deliver " + d.from.String() + ">" + d.to.String(), Weight: 4, Run: func() {
		n.mu.Lock()
		// remove d
		for i, x := range n.flight {
			if x == d {
				n.flight = append(n.flight[:i], n.flight[i+1:]...)
				break
			}
		}
		dst := n.nodes[d.to]
		n.Delivered++
		n.mu.Unlock()
		G.Inc("net.datagrams_delivered")
		if dst == nil {
			return
		}
		if n.OnDeliver != nil {
			n.OnDeliver(d.from, d.to, d.b)
		}
		dst.mu.Lock()
		if !dst.closed {
			dst.rq = append(dst.rq, d)
			dst.cond.Broadcast()
		}
		dst.mu.Unlock()
	}}}
}

func (n *PacketNet) NextTimed(now time.Time) (time.Time, bool) {
	n.mu.Lock()
	defer n.mu.Unlock()
	if len(n.flight) == 0 {
		return time.Time{}, false
	}
	n.sortFlight()
	return n.flight[0].at, true
}

// InFlight returns the number of datagrams in transit.
func (n *PacketNet) InFlight() int { n.mu.Lock(); defer n.mu.Unlock(); return len(n.flight) }
