package verifsim

import (
	"fmt"
	"os"
	"runtime"
	"sync"
	"sync/atomic"
	"testing"
	"testing/synctest"
	"time"
)

// This file is the scheduler for engines that run real goroutines inside a
// testing/synctest bubble. Real code runs on real goroutines, but exactly one
// stimulus is released at a time: the loop on the bubble's root goroutine waits
// for quiescence (every goroutine durably blocked), evaluates the invariants,
// collects the enabled events (a task parked at its next script step, a chunk of
// bytes or a datagram that can be delivered, a fault that can be injected) and
// lets the Chooser pick exactly one.

// Event is one thing the scheduler can do next.
type Event struct {
	Label  string
	Weight int // relative weight; 0 means 1
	Run    func()
}

// Source produces enabled events (network links, fault injectors, ...).
type Source interface {
	Events(now time.Time) []Event
	// NextTimed returns the time of the next event that is not enabled yet but
	// will be (e.g. a datagram still in transit); ok=false if there is none.
	NextTimed(now time.Time) (time.Time, bool)
}

// Task is a scripted application-level actor (request caller, handler body,
// stream reader/writer, lock user). Its goroutine calls Step before each
// operation and is parked until the scheduler grants it.
type Task struct {
	Name    string
	sim     *Sim
	mu      sync.Mutex
	waiting string // non-empty: parked at Step with this label
	grant   chan struct{}
	done    bool
	aborted bool
	Weight  int
}

type abortTask struct{}

// Sim is one simulated run inside a bubble.
type Sim struct {
	// Burst, if set, may name a second event (index into the enabled events of
	// this step, the first one included in the list) to execute in the same step.
	Burst    func(first Event, enabled []Event) int
	C        Chooser
	Tr       *Trace
	MaxSteps int
	Horizon  time.Duration // simulated-time budget of the run
	Start    time.Time

	tmu     sync.Mutex // guards tasks (Attach may run on a goroutine of the system)
	tasks   []*Task
	sources []Source
	wake    chan struct{}

	// Check is evaluated at every quiescent point; a non-nil result ends the run.
	Check func() *Violation
	// Done says when the run's work is complete (default: all tasks finished).
	Done func() bool

	Steps    int
	Viol     *Violation
	Stuck    bool // horizon reached with work still pending
	StepsOut bool // MaxSteps reached
	aborting atomic.Bool
	vmu      sync.Mutex
}

func NewSim(c Chooser, tr *Trace) *Sim {
	return &Sim{C: c, Tr: tr, MaxSteps: 5000, Horizon: 10 * time.Minute, Start: time.Now(), wake: make(chan struct{}, 1)}
}

// Wake tells the scheduler loop that something may have become enabled. Safe to
// call from any goroutine in the bubble.
func (s *Sim) Wake() {
	select {
	case s.wake <- struct{}{}:
	default:
	}
}

func (s *Sim) AddSource(src Source) { s.sources = append(s.sources, src) }

// SetViolation records the first violation seen by any goroutine.
func (s *Sim) SetViolation(v *Violation) {
	if v == nil {
		return
	}
	s.vmu.Lock()
	if s.Viol == nil {
		s.Viol = v
	}
	s.vmu.Unlock()
	s.Wake()
}

func (s *Sim) violation() *Violation {
	s.vmu.Lock()
	defer s.vmu.Unlock()
	return s.Viol
}

// Go starts a task. f runs on its own goroutine; a panic in f that is not the
// scheduler's abort signal is recorded as a violation of property prop (oracle
// "panic").
func (s *Sim) Go(name, prop string, f func(tk *Task)) *Task {
	tk := &Task{Name: name, sim: s, grant: make(chan struct{})}
	s.tmu.Lock()
	s.tasks = append(s.tasks, tk)
	s.tmu.Unlock()
	go func() {
		defer func() {
			r := recover()
			tk.mu.Lock()
			tk.done = true
			tk.waiting = ""
			tk.mu.Unlock()
			if r != nil {
				if _, ok := r.(abortTask); !ok {
					buf := make([]byte, 8192)
					buf = buf[:runtime.Stack(buf, false)]
					s.SetViolation(&Violation{Prop: prop, Oracle: "panic", Sig: "task_panic", Detail: fmt.Sprintf("panic in task %s: %v\n%s", name, r, buf)})
				}
			}
			s.Wake()
		}()
		f(tk)
	}()
	return tk
}

// Attach registers the calling goroutine (one the system under test created,
// e.g. an http.Handler invocation) as a task. The goroutine calls Step before
// each scripted operation and must call Finish when its script is over.
func (s *Sim) Attach(name string) *Task {
	tk := &Task{Name: name, sim: s, grant: make(chan struct{})}
	s.tmu.Lock()
	s.tasks = append(s.tasks, tk)
	s.tmu.Unlock()
	return tk
}

// Finish marks an attached task as done.
func (tk *Task) Finish() {
	tk.mu.Lock()
	tk.done = true
	tk.waiting = ""
	tk.mu.Unlock()
	tk.sim.Wake()
}

// IsAbort reports whether a recovered panic value is the scheduler's abort signal.
func IsAbort(r any) bool { _, ok := r.(abortTask); return ok }

// Step parks the task until the scheduler grants its next operation.
func (tk *Task) Step(label string) {
	tk.mu.Lock()
	if tk.sim.aborting.Load() {
		tk.mu.Unlock()
		panic(abortTask{})
	}
	tk.waiting = label
	tk.mu.Unlock()
	tk.sim.Wake()
	<-tk.grant
	tk.mu.Lock()
	ab := tk.aborted
	tk.mu.Unlock()
	if ab {
		panic(abortTask{})
	}
}

// Done reports whether the task's function has returned.
func (tk *Task) Done() bool {
	tk.mu.Lock()
	defer tk.mu.Unlock()
	return tk.done
}

// Parked returns the label the task is parked at ("" if running/blocked/done).
func (tk *Task) Parked() string {
	tk.mu.Lock()
	defer tk.mu.Unlock()
	return tk.waiting
}

func (s *Sim) taskList() []*Task {
	s.tmu.Lock()
	defer s.tmu.Unlock()
	return append([]*Task(nil), s.tasks...)
}

func (s *Sim) AllTasksDone() bool {
	for _, tk := range s.taskList() {
		if !tk.Done() {
			return false
		}
	}
	return true
}

// PendingTasks lists tasks that have not finished, with where they are.
func (s *Sim) PendingTasks() []string {
	var out []string
	for _, tk := range s.taskList() {
		tk.mu.Lock()
		if !tk.done {
			if tk.waiting != "" {
				out = append(out, tk.Name+"@"+tk.waiting)
			} else {
				out = append(out, tk.Name+"@blocked-in-operation")
			}
		}
		tk.mu.Unlock()
	}
	return out
}

func (s *Sim) enabled(now time.Time) []Event {
	var evs []Event
	for _, tk := range s.taskList() {
		tk.mu.Lock()
		w := tk.waiting
		tk.mu.Unlock()
		if w != "" {
			tk := tk
			evs = append(evs, Event{Label: tk.Name + ": " + w, Weight: tk.Weight, Run: func() {
				tk.mu.Lock()
				tk.waiting = ""
				tk.mu.Unlock()
				tk.grant <- struct{}{}
			}})
		}
	}
	for _, src := range s.sources {
		evs = append(evs, src.Events(now)...)
	}
	return evs
}

func pickEvent(c Chooser, evs []Event) Event {
	total := 0
	for _, e := range evs {
		w := e.Weight
		if w <= 0 {
			w = 1
		}
		total += w
	}
	x := c.Intn(total)
	for _, e := range evs {
		w := e.Weight
		if w <= 0 {
			w = 1
		}
		if x < w {
			return e
		}
		x -= w
	}
	return evs[len(evs)-1]
}

// Run executes the scheduler loop on the calling (bubble root) goroutine.
func (s *Sim) Run() {
	done := s.Done
	if done == nil {
		done = s.AllTasksDone
	}
	for {
		synctest.Wait()
		if v := s.violation(); v != nil {
			return
		}
		if s.Check != nil {
			if v := s.Check(); v != nil {
				s.SetViolation(v)
				return
			}
		}
		now := time.Now()
		evs := s.enabled(now)
		if len(evs) == 0 {
			if done() {
				return
			}
			// Nothing to choose: let simulated time pass until something is
			// enabled (a timer of the system fires and produces output, a
			// datagram in transit becomes deliverable) or the horizon ends.
			limit := s.Start.Add(s.Horizon)
			if !now.Before(limit) {
				s.Stuck = true
				return
			}
			until := limit
			for _, src := range s.sources {
				if t, ok := src.NextTimed(now); ok && t.Before(until) {
					until = t
				}
			}
			select {
			case <-s.wake:
			default:
			}
			d := until.Sub(now)
			if d <= 0 {
				d = time.Nanosecond
			}
			tm := time.NewTimer(d)
			select {
			case <-s.wake:
			case <-tm.C:
			}
			tm.Stop()
			continue
		}
		if s.Steps >= s.MaxSteps {
			s.StepsOut = true
			return
		}
		e := pickEvent(s.C, evs)
		s.Tr.Ev("%s", e.Label)
		s.Steps++
		e.Run()
		if s.Burst != nil {
			// A second event of the same step, executed before the system quiesces:
			// both stimuli are pending when the system's goroutines next run (the
			// engine picks pairs that do not invalidate each other, e.g. a task's
			// next operation and a network delivery).
			if j := s.Burst(e, evs); j >= 0 && j < len(evs) {
				e2 := evs[j]
				s.Tr.Ev("+ %s", e2.Label)
				s.Steps++
				e2.Run()
				G.Inc("sched.burst_pairs")
			}
		}
	}
}

// Sleep advances simulated time by d on the root goroutine and lets everything
// triggered by it settle.
func (s *Sim) Sleep(d time.Duration) {
	time.Sleep(d)
	synctest.Wait()
}

// Abort releases every parked task with the abort signal so that their
// goroutines exit; tasks blocked inside an operation must be unblocked by the
// engine (close the connection, cancel the context) before or after this call.
func (s *Sim) Abort() {
	s.aborting.Store(true)
	for _, tk := range s.taskList() {
		tk.mu.Lock()
		parked := tk.waiting != ""
		if parked {
			tk.aborted = true
			tk.waiting = ""
		}
		tk.mu.Unlock()
		if parked {
			tk.grant <- struct{}{}
		}
	}
	synctest.Wait()
}

// Drain aborts parked tasks repeatedly, letting simulated time pass in between,
// until every task goroutine has exited (tasks sleeping or blocked on timers
// need time to advance). It reports whether all tasks finished.
func (s *Sim) Drain() bool {
	for i := 0; i < 200; i++ {
		s.Abort()
		if s.AllTasksDone() {
			return true
		}
		time.Sleep(time.Duration(i+1) * 100 * time.Millisecond)
	}
	return s.AllTasksDone()
}

// Elapsed returns the simulated time since the run started.
func (s *Sim) Elapsed() time.Duration { return time.Since(s.Start) }

// Bubble runs f inside a synctest bubble and converts the end-of-bubble panics
// (deadlock: goroutines still blocked when the root returns) into an error
// string instead of killing the process. A panic raised on the root goroutine
// itself is re-raised on the caller's goroutine after the bubble has finished.
func Bubble(t *testing.T, f func()) (deadlock string) {
	var rootPanic any
	var rootStack []byte
	func() {
		defer func() {
			if r := recover(); r != nil {
				deadlock = fmt.Sprint(r)
			}
		}()
		synctest.Test(t, func(t *testing.T) {
			defer func() {
				if r := recover(); r != nil {
					rootPanic = r
					rootStack = make([]byte, 8192)
					rootStack = rootStack[:runtime.Stack(rootStack, false)]
				}
			}()
			f()
			if os.Getenv("VERIF_DEBUG_STACKS") != "" {
				synctest.Wait()
				buf := make([]byte, 1<<18)
				buf = buf[:runtime.Stack(buf, true)]
				fmt.Printf("VERIF-DEBUG stacks at end of bubble:\n%s\n", buf)
			}
		})
	}()
	if rootPanic != nil {
		panic(fmt.Sprintf("%v\n(root goroutine of bubble)\n%s", rootPanic, rootStack))
	}
	return deadlock
}
