package verifsim

import (
	"errors"
	"fmt"
	"io"
	"net"
	"os"
	"sync"
	"time"
)

// StreamNet: simulated reliable ordered byte-stream connections (TCP-like) whose
// delivery is decided by the scheduler. A StreamConn has two ends; bytes written
// at one end sit in the link's in-flight queue until the scheduler delivers a
// chunk (of a size it chooses) to the peer's read buffer.
//
// Writes never block unless the link has a receive-buffer bound (back-pressure),
// which must only be enabled on ends whose writers hold no sync.Mutex
// (sync.Mutex is not durably blocking under synctest).

type link struct {
	name     string
	mu       sync.Mutex
	cond     *sync.Cond
	inflight []byte // written, not yet delivered
	rbuf     []byte // delivered, not yet read
	wclosed  bool   // writer closed its end: EOF follows the in-flight bytes
	eof      bool   // EOF delivered
	broken   error  // connection reset: reads and writes fail
	rclosed  bool   // reader closed its own end
	bound    int    // >0: writer blocks while len(inflight)+len(rbuf) >= bound
	stalled  bool   // delivery administratively stalled (slow peer)
	discard  bool   // delivered bytes are consumed by the simulator itself (no reader)

	rdeadline time.Time
	rdTimer   *time.Timer
	wdeadline time.Time
	wdTimer   *time.Timer

	Written   int64
	Delivered int64
	tap       func(p []byte) // sees bytes in write order
	sim       *Sim
}

// StreamEnd is one end of a simulated connection; it implements net.Conn.
type StreamEnd struct {
	name   string
	in     *link // peer -> me
	out    *link // me -> peer
	local  net.Addr
	remote net.Addr
	closed bool
	cmu    sync.Mutex
}

type simAddr string

func (a simAddr) Network() string { return "sim" }
func (a simAddr) String() string  { return string(a) }

// StreamConn is a pair of ends plus the event source the scheduler uses.
type StreamConn struct {
	Name string
	A, B *StreamEnd
	ab   *link // A -> B
	ba   *link // B -> A
	sim  *Sim

	// SplitHint, if set, returns interesting chunk sizes for delivering a prefix
	// of the in-flight bytes (e.g. frame boundaries and offsets inside headers).
	SplitHintAB func(inflight []byte) []int
	SplitHintBA func(inflight []byte) []int

	// Fault switches (set by the engine from the plan).
	AllowCut      bool // connection reset at an arbitrary instant
	AllowCorrupt  bool // bit flip in the in-flight bytes (AB direction only unless CorruptBA)
	CorruptBA     bool
	DeliverWeight int
	cut           bool
}

func NewStreamConn(sim *Sim, name string) *StreamConn {
	mk := func(n string) *link {
		l := &link{name: n, sim: sim}
		l.cond = sync.NewCond(&l.mu)
		return l
	}
	c := &StreamConn{Name: name, sim: sim, ab: mk(name + ":a>b"), ba: mk(name + ":b>a"), DeliverWeight: 3}
	c.A = &StreamEnd{name: name + ".A", in: c.ba, out: c.ab, local: simAddr(name + ".A"), remote: simAddr(name + ".B")}
	c.B = &StreamEnd{name: name + ".B", in: c.ab, out: c.ba, local: simAddr(name + ".B"), remote: simAddr(name + ".A")}
	sim.AddSource(c)
	return c
}

// TapAB / TapBA install monitors that see every byte written in that direction,
// in write order, at the time of the write.
func (c *StreamConn) TapAB(f func(p []byte)) { c.ab.tap = f }
func (c *StreamConn) TapBA(f func(p []byte)) { c.ba.tap = f }

// DiscardBA says that nobody reads end A: bytes delivered B -> A are consumed by
// the simulator (which sees them through TapBA) instead of being buffered.
func (c *StreamConn) DiscardBA() { c.ba.discard = true }
func (c *StreamConn) DiscardAB() { c.ab.discard = true }

// BoundAB bounds the bytes buffered from A to B (back-pressure on A's writes).
func (c *StreamConn) BoundAB(n int) { c.ab.bound = n }
func (c *StreamConn) BoundBA(n int) { c.ba.bound = n }

// DeliveredAB is the number of bytes written by A that have been delivered to B.
func (c *StreamConn) DeliveredAB() int64 {
	c.ab.mu.Lock()
	defer c.ab.mu.Unlock()
	return c.ab.Delivered
}
func (c *StreamConn) DeliveredBA() int64 {
	c.ba.mu.Lock()
	defer c.ba.mu.Unlock()
	return c.ba.Delivered
}
func (c *StreamConn) WrittenAB() int64 { c.ab.mu.Lock(); defer c.ab.mu.Unlock(); return c.ab.Written }
func (c *StreamConn) WrittenBA() int64 { c.ba.mu.Lock(); defer c.ba.mu.Unlock(); return c.ba.Written }

// InflightAB returns the number of undelivered bytes A -> B.
func (c *StreamConn) InflightAB() int {
	c.ab.mu.Lock()
	defer c.ab.mu.Unlock()
	return len(c.ab.inflight)
}
func (c *StreamConn) InflightBA() int {
	c.ba.mu.Lock()
	defer c.ba.mu.Unlock()
	return len(c.ba.inflight)
}

// StallAB stops/resumes delivery A -> B (a stalled or slow peer).
func (c *StreamConn) StallAB(on bool) { c.ab.mu.Lock(); c.ab.stalled = on; c.ab.mu.Unlock() }
func (c *StreamConn) StallBA(on bool) { c.ba.mu.Lock(); c.ba.stalled = on; c.ba.mu.Unlock() }

func (l *link) deliver(n int) {
	l.mu.Lock()
	if n > len(l.inflight) {
		n = len(l.inflight)
	}
	if !l.discard {
		l.rbuf = append(l.rbuf, l.inflight[:n]...)
	}
	l.inflight = l.inflight[n:]
	if len(l.inflight) == 0 {
		l.inflight = nil
	}
	l.Delivered += int64(n)
	l.cond.Broadcast()
	l.mu.Unlock()
}

// DeliverAll moves everything in flight (both directions) to the readers,
// including a pending EOF.
func (c *StreamConn) DeliverAll() {
	for _, l := range []*link{c.ab, c.ba} {
		l.deliver(1 << 30)
		l.mu.Lock()
		if l.wclosed && !l.eof {
			l.eof = true
			l.cond.Broadcast()
		}
		l.mu.Unlock()
	}
}

func (c *StreamConn) linkEvents(l *link, dir string, hint func([]byte) []int, evs []Event) []Event {
	l.mu.Lock()
	n := len(l.inflight)
	stalled := l.stalled
	wclosed, eof, broken := l.wclosed, l.eof, l.broken != nil
	var hints []int
	if n > 0 && hint != nil {
		hints = hint(l.inflight)
	}
	l.mu.Unlock()
	if broken || stalled {
		return evs
	}
	if n > 0 {
		evs = append(evs, Event{Label: "net " + dir + " deliver", Weight: c.DeliverWeight, Run: func() {
			// choice 0 = deliver everything (simplest)
			k := n
			switch c.sim.C.Intn(5) {
			case 0:
				k = n
			case 1:
				k = 1
			case 2:
				k = 1 + c.sim.C.Intn(n)
			case 3:
				if len(hints) > 0 {
					k = hints[c.sim.C.Intn(len(hints))]
				}
			case 4:
				k = 1 + c.sim.C.Intn(min(n, 32))
			}
			if k < 1 {
				k = 1
			}
			if k > n {
				k = n
			}
			c.sim.Tr.Ev("  %s %d/%d bytes", dir, k, n)
			G.Inc("net.stream_deliveries")
			if k < n {
				G.Inc("fault.split_delivery")
			}
			l.deliver(k)
		}})
	} else if wclosed && !eof {
		evs = append(evs, Event{Label: "net " + dir + " deliver EOF", Weight: c.DeliverWeight, Run: func() {
			l.mu.Lock()
			l.eof = true
			l.cond.Broadcast()
			l.mu.Unlock()
		}})
	}
	return evs
}

// Events implements Source.
func (c *StreamConn) Events(now time.Time) []Event {
	var evs []Event
	evs = c.linkEvents(c.ab, c.Name+" A>B", c.SplitHintAB, evs)
	evs = c.linkEvents(c.ba, c.Name+" B>A", c.SplitHintBA, evs)
	if c.AllowCut && !c.cut {
		evs = append(evs, Event{Label: "net " + c.Name + " CUT", Weight: 1, Run: func() {
			G.Inc("fault.conn_cut")
			c.Cut(errors.New("sim: connection reset by peer"))
		}})
	}
	if c.AllowCorrupt {
		add := func(l *link, dir string) {
			l.mu.Lock()
			n := len(l.inflight)
			l.mu.Unlock()
			if n == 0 {
				return
			}
			evs = append(evs, Event{Label: "net " + dir + " corrupt", Weight: 1, Run: func() {
				i := c.sim.C.Intn(n)
				bit := c.sim.C.Intn(8)
				l.mu.Lock()
				if i < len(l.inflight) {
					l.inflight[i] ^= 1 << bit
				}
				l.mu.Unlock()
				c.sim.Tr.Ev("  flip byte %d bit %d", i, bit)
				G.Inc("fault.bit_flip")
			}})
		}
		add(c.ab, c.Name+" A>B")
		if c.CorruptBA {
			add(c.ba, c.Name+" B>A")
		}
	}
	return evs
}

func (c *StreamConn) NextTimed(now time.Time) (time.Time, bool) { return time.Time{}, false }

// Cut resets the connection: undelivered bytes are lost, pending and future
// reads and writes on both ends fail with err.
func (c *StreamConn) Cut(err error) {
	c.cut = true
	for _, l := range []*link{c.ab, c.ba} {
		l.mu.Lock()
		l.broken = err
		l.inflight = nil
		l.cond.Broadcast()
		l.mu.Unlock()
	}
}

// IsCut reports whether the connection was reset by the simulator.
func (c *StreamConn) IsCut() bool { return c.cut }

// ---- net.Conn ----

type timeoutError struct{}

func (timeoutError) Error() string   { return "sim: i/o timeout" }
func (timeoutError) Timeout() bool   { return true }
func (timeoutError) Temporary() bool { return true }
func (timeoutError) Unwrap() error   { return os.ErrDeadlineExceeded }

func (e *StreamEnd) Read(p []byte) (int, error) {
	l := e.in
	l.mu.Lock()
	defer l.mu.Unlock()
	for {
		if l.rclosed {
			return 0, net.ErrClosed
		}
		if len(l.rbuf) > 0 {
			n := copy(p, l.rbuf)
			l.rbuf = l.rbuf[n:]
			if len(l.rbuf) == 0 {
				l.rbuf = nil
			}
			l.cond.Broadcast() // space for a back-pressured writer
			if e.in.sim != nil {
				e.in.sim.Wake()
			}
			return n, nil
		}
		if l.broken != nil {
			return 0, l.broken
		}
		if l.eof {
			return 0, io.EOF
		}
		if !l.rdeadline.IsZero() && !time.Now().Before(l.rdeadline) {
			return 0, timeoutError{}
		}
		if len(p) == 0 {
			return 0, nil
		}
		l.cond.Wait()
	}
}

func (e *StreamEnd) Write(p []byte) (int, error) {
	l := e.out
	l.mu.Lock()
	defer l.mu.Unlock()
	written := 0
	for {
		if l.wclosed {
			return written, net.ErrClosed
		}
		if l.broken != nil {
			return written, l.broken
		}
		if !l.wdeadline.IsZero() && !time.Now().Before(l.wdeadline) {
			return written, timeoutError{}
		}
		if l.bound > 0 {
			room := l.bound - len(l.inflight) - len(l.rbuf)
			if room <= 0 {
				G.Inc("fault.backpressure_block")
				l.cond.Wait()
				continue
			}
			n := min(room, len(p)-written)
			chunk := p[written : written+n]
			l.inflight = append(l.inflight, chunk...)
			l.Written += int64(n)
			if l.tap != nil {
				l.tap(chunk)
			}
			written += n
			if l.sim != nil {
				l.sim.Wake()
			}
			if written == len(p) {
				return written, nil
			}
			continue
		}
		l.inflight = append(l.inflight, p...)
		l.Written += int64(len(p))
		if l.tap != nil {
			l.tap(p)
		}
		if l.sim != nil {
			l.sim.Wake()
		}
		return len(p), nil
	}
}

// Close closes this end: the peer reads EOF after the bytes already in flight
// (delivered by the scheduler), local reads and writes fail.
func (e *StreamEnd) Close() error {
	e.cmu.Lock()
	if e.closed {
		e.cmu.Unlock()
		return nil
	}
	e.closed = true
	e.cmu.Unlock()
	e.out.mu.Lock()
	e.out.wclosed = true
	e.out.cond.Broadcast()
	e.out.mu.Unlock()
	e.in.mu.Lock()
	e.in.rclosed = true
	e.in.cond.Broadcast()
	e.in.mu.Unlock()
	if e.out.sim != nil {
		e.out.sim.Wake()
	}
	return nil
}

// CloseWrite half-closes: the peer reads EOF after in-flight bytes.
func (e *StreamEnd) CloseWrite() error {
	e.out.mu.Lock()
	e.out.wclosed = true
	e.out.cond.Broadcast()
	e.out.mu.Unlock()
	if e.out.sim != nil {
		e.out.sim.Wake()
	}
	return nil
}

func (e *StreamEnd) IsClosed() bool { e.cmu.Lock(); defer e.cmu.Unlock(); return e.closed }

func (e *StreamEnd) LocalAddr() net.Addr  { return e.local }
func (e *StreamEnd) RemoteAddr() net.Addr { return e.remote }

func (e *StreamEnd) SetDeadline(t time.Time) error {
	e.SetReadDeadline(t)
	e.SetWriteDeadline(t)
	return nil
}

func setDeadline(l *link, dl *time.Time, tm **time.Timer, t time.Time) {
	l.mu.Lock()
	defer l.mu.Unlock()
	*dl = t
	if *tm != nil {
		(*tm).Stop()
		*tm = nil
	}
	if !t.IsZero() {
		d := time.Until(t)
		if d <= 0 {
			l.cond.Broadcast()
			return
		}
		*tm = time.AfterFunc(d, func() {
			l.mu.Lock()
			l.cond.Broadcast()
			l.mu.Unlock()
		})
	}
}

func (e *StreamEnd) SetReadDeadline(t time.Time) error {
	setDeadline(e.in, &e.in.rdeadline, &e.in.rdTimer, t)
	return nil
}

func (e *StreamEnd) SetWriteDeadline(t time.Time) error {
	setDeadline(e.out, &e.out.wdeadline, &e.out.wdTimer, t)
	return nil
}

func (e *StreamEnd) String() string { return fmt.Sprintf("StreamEnd(%s)", e.name) }

// StopTimers stops deadline timers (call at teardown so no timer outlives the bubble).
func (c *StreamConn) StopTimers() {
	for _, l := range []*link{c.ab, c.ba} {
		l.mu.Lock()
		if l.rdTimer != nil {
			l.rdTimer.Stop()
		}
		if l.wdTimer != nil {
			l.wdTimer.Stop()
		}
		l.mu.Unlock()
	}
}
