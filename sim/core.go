// Package verifsim is the shared core of the deterministic-simulation checks in
// /verif. It is injected into the module at golang.org/x/net/internal/verifsim by
// `go test -overlay`; nothing here is part of golang/net.
//
// Everything random in a simulated run comes from one Chooser, which is either
// backed directly by a *rapid.T (sequential engines) or by a byte tape that was
// drawn from rapid before a synctest bubble was entered (concurrent engines).
// Logging and statistics never draw and never read a real clock.
package verifsim

import (
	"encoding/json"
	"flag"
	"fmt"
	"os"
	"runtime"
	"sort"
	"strconv"
	"strings"
	"sync"
	"testing"
	"time"

	"pgregory.net/rapid"
)

// ---------------------------------------------------------------------------
// Choice sources

// Chooser is the only source of nondeterministic decisions in a run.
type Chooser interface {
	// Intn returns a value in [0,n). n must be > 0. The value 0 is always the
	// "simplest" choice (first enabled event, smallest size), so that shrinking
	// towards zero simplifies the run.
	Intn(n int) int
}

// RapidChooser draws every choice straight from rapid. Only for engines that run
// on the goroutine rapid called (no synctest bubble).
type RapidChooser struct{ T *rapid.T }

func (c RapidChooser) Intn(n int) int {
	if n <= 1 {
		return 0
	}
	return rapid.IntRange(0, n-1).Draw(c.T, "c")
}

// Tape is a pre-drawn choice tape. When the tape is exhausted, choices continue
// from a PCG-style stream seeded by one more drawn value, so a run is still a pure
// function of the rapid draw.
type Tape struct {
	B    []byte
	pos  int
	s    uint64
	Used int // number of choices made
}

func NewTape(b []byte, seed uint64) *Tape { return &Tape{B: b, s: seed | 1} }

// DrawTape draws a tape of at most max bytes plus the overflow seed from rapid.
func DrawTape(rt *rapid.T, max int) *Tape {
	b := rapid.SliceOfN(rapid.Byte(), 0, max).Draw(rt, "tape")
	seed := rapid.Uint64().Draw(rt, "tapeseed")
	return NewTape(b, seed)
}

func (t *Tape) next() uint32 {
	if t.pos < len(t.B) {
		v := t.B[t.pos]
		t.pos++
		return uint32(v)
	}
	// splitmix64
	t.s += 0x9e3779b97f4a7c15
	z := t.s
	z = (z ^ (z >> 30)) * 0xbf58476d1ce4e5b9
	z = (z ^ (z >> 27)) * 0x94d049bb133111eb
	z ^= z >> 31
	return uint32(z >> 33)
}

func (t *Tape) Intn(n int) int {
	t.Used++
	if n <= 1 {
		return 0
	}
	if t.pos >= len(t.B) {
		return int(t.next() % uint32(n))
	}
	var v uint32
	switch {
	case n <= 256:
		v = t.next()
	case n <= 65536:
		v = t.next() | t.next()<<8
	default:
		v = t.next() | t.next()<<8 | t.next()<<16 | (t.next()&0x7f)<<24
	}
	return int(v % uint32(n))
}

// Helpers usable with any Chooser.

func Bool(c Chooser) bool { return c.Intn(2) == 1 }

// Pct is true with probability about p/100; choice value 0 maps to false.
func Pct(c Chooser, p int) bool {
	if p <= 0 {
		return false
	}
	return c.Intn(100) >= 100-p
}

// Range returns a value in [lo,hi].
func Range(c Chooser, lo, hi int) int {
	if hi <= lo {
		return lo
	}
	return lo + c.Intn(hi-lo+1)
}

// Pick returns one of the given values; the first is the simplest.
func Pick[T any](c Chooser, vs ...T) T { return vs[c.Intn(len(vs))] }

// SizeBiased returns a size in [0,max] biased towards small values and towards
// the interesting boundaries given in edges.
func SizeBiased(c Chooser, max int, edges ...int) int {
	switch c.Intn(4) {
	case 0:
		return Range(c, 0, min(max, 16))
	case 1:
		if len(edges) > 0 {
			e := edges[c.Intn(len(edges))] + c.Intn(3) - 1
			if e < 0 {
				e = 0
			}
			if e > max {
				e = max
			}
			return e
		}
		return Range(c, 0, min(max, 256))
	case 2:
		return Range(c, 0, min(max, 1024))
	default:
		return Range(c, 0, max)
	}
}

// ---------------------------------------------------------------------------
// Trace: the executed-event log of one run and its hash.

type Trace struct {
	h    uint64
	N    int
	Log  []string
	Keep int // max lines kept (0 = 400)
}

func NewTrace() *Trace { return &Trace{h: 14695981039346656037} }

func (t *Trace) mix(s string) {
	for i := 0; i < len(s); i++ {
		t.h ^= uint64(s[i])
		t.h *= 1099511628211
	}
	t.h ^= 0xff
	t.h *= 1099511628211
}

// Ev records one executed event.
func (t *Trace) Ev(format string, args ...any) {
	s := format
	if len(args) > 0 {
		s = fmt.Sprintf(format, args...)
	}
	t.mix(s)
	t.N++
	keep := t.Keep
	if keep == 0 {
		keep = 400
	}
	if len(t.Log) < keep {
		t.Log = append(t.Log, s)
	}
}

func (t *Trace) Hash() uint64 { return t.h }

// ---------------------------------------------------------------------------
// Statistics / evidence

type Stats struct {
	mu         sync.Mutex
	Counters   map[string]int64
	hashes     map[uint64]struct{}
	Runs       int64
	Nontrivial int64
	SimNanos   int64
	Samples    []any
	maxSamples int
	start      time.Time
}

// G collects statistics for the test process.
var G = &Stats{Counters: map[string]int64{}, hashes: map[uint64]struct{}{}, maxSamples: 3, start: time.Now()}

func (s *Stats) Inc(name string) { s.Add(name, 1) }

func (s *Stats) Add(name string, d int64) {
	s.mu.Lock()
	s.Counters[name] += d
	s.mu.Unlock()
}

// EndRun records one finished simulated run. nontrivial says whether the run
// executed real workload (and, in fault configurations, had a fault fire); only
// such runs contribute their trace hash to the distinct count.
func (s *Stats) EndRun(tr *Trace, nontrivial bool, sim time.Duration, sample func() any) {
	s.mu.Lock()
	defer s.mu.Unlock()
	s.Runs++
	s.SimNanos += int64(sim)
	if nontrivial {
		s.Nontrivial++
		if len(s.hashes) < 4_000_000 {
			s.hashes[tr.Hash()] = struct{}{}
		}
		if len(s.Samples) < s.maxSamples && sample != nil {
			s.Samples = append(s.Samples, sample())
		}
	}
}

type statsFile struct {
	Test       string           `json:"test"`
	Runs       int64            `json:"runs"`
	Nontrivial int64            `json:"nontrivial"`
	SimSeconds float64          `json:"sim_seconds"`
	WallS      float64          `json:"wall_s"`
	Counters   map[string]int64 `json:"counters"`
	Hashes     []string         `json:"hashes"`
	Samples    []any            `json:"samples"`
}

// Dump writes the statistics to the file named by $VERIF_STATS (if set). It is
// called from the test's Cleanup.
func (s *Stats) Dump(test string) {
	path := os.Getenv("VERIF_STATS")
	if path == "" {
		return
	}
	s.mu.Lock()
	defer s.mu.Unlock()
	f := statsFile{Test: test, Runs: s.Runs, Nontrivial: s.Nontrivial,
		SimSeconds: float64(s.SimNanos) / 1e9, WallS: time.Since(s.start).Seconds(),
		Counters: s.Counters, Samples: s.Samples}
	hs := make([]uint64, 0, len(s.hashes))
	for h := range s.hashes {
		hs = append(hs, h)
	}
	sort.Slice(hs, func(i, j int) bool { return hs[i] < hs[j] })
	f.Hashes = make([]string, len(hs))
	for i, h := range hs {
		f.Hashes[i] = strconv.FormatUint(h, 36)
	}
	b, _ := json.Marshal(f)
	tmp := path + ".tmp"
	if err := os.WriteFile(tmp, b, 0o644); err == nil {
		os.Rename(tmp, path)
	}
}

// ---------------------------------------------------------------------------
// Violations

// Violation is an oracle mismatch. Oracle is a short stable identifier of the
// oracle that fired; Sig is a stable normal form of the failing history (used to
// match /verif/known_findings.txt); Detail is free text.
type Violation struct {
	Prop   string
	Oracle string
	Sig    string
	Detail string
}

func (v *Violation) String() string {
	return fmt.Sprintf("VERIF-VIOLATION property=%s oracle=%s sig=%q :: %s", v.Prop, v.Oracle, v.Sig, v.Detail)
}

func Violf(prop, oracle, sig, format string, args ...any) *Violation {
	return &Violation{Prop: prop, Oracle: oracle, Sig: sig, Detail: fmt.Sprintf(format, args...)}
}

var (
	classMu  sync.Mutex
	pinClass string
	pinViol  string // text of the first violation seen
)

// Report fails the rapid run with the violation (if v != nil). Once a first
// violation has been seen in this process, only violations of the same class
// (property + oracle) fail later runs: rapid's shrinker therefore minimises
// "while the same violation class persists".
func Report(rt *rapid.T, v *Violation, tr *Trace) {
	if v == nil {
		return
	}
	class := v.Prop + "/" + v.Oracle
	classMu.Lock()
	if pinClass == "" {
		pinClass = class
		pinViol = v.String()
	}
	same := pinClass == class
	classMu.Unlock()
	if !same {
		return
	}
	if tr != nil {
		rt.Logf("VERIF-TRACE begin (%d events, hash %x)", tr.N, tr.Hash())
		for i, l := range tr.Log {
			rt.Logf("VERIF-TRACE %4d %s", i, l)
		}
		rt.Logf("VERIF-TRACE end")
	}
	rt.Fatalf("%s", v.String())
}

// Guard runs f (a call into the code under test) and converts a panic into a
// violation of the given property with oracle "panic". It must not be wrapped
// around rapid draws (rapid unwinds with panics of its own).
func Guard(prop, sig string, f func()) (v *Violation) {
	defer func() {
		if r := recover(); r != nil {
			buf := make([]byte, 4096)
			buf = buf[:runtime.Stack(buf, false)]
			v = &Violation{Prop: prop, Oracle: "panic", Sig: sig, Detail: fmt.Sprintf("panic in code under test: %v\n%s", r, buf)}
		}
	}()
	f()
	return nil
}

// LogTrace prints the executed-event trace into the test log.
func LogTrace(rt *rapid.T, tr *Trace) {
	if tr == nil {
		return
	}
	rt.Logf("VERIF-TRACE begin (%d events, hash %x)", tr.N, tr.Hash())
	for i, l := range tr.Log {
		rt.Logf("VERIF-TRACE %4d %s", i, l)
	}
	rt.Logf("VERIF-TRACE end")
}

// Harnessf reports an internal inconsistency of the harness itself (never a
// property violation): the driver exits 2 on it.
func Harnessf(rt *rapid.T, format string, args ...any) {
	rt.Fatalf("VERIF-HARNESS %s", fmt.Sprintf(format, args...))
}

// Env helpers -----------------------------------------------------------------

// Tier returns "quick" or "thorough" (from $VERIF_TIER).
func Tier() string {
	if os.Getenv("VERIF_TIER") == "thorough" {
		return "thorough"
	}
	return "quick"
}

// Thorough picks by tier.
func Thorough[T any](quick, thorough T) T {
	if Tier() == "thorough" {
		return thorough
	}
	return quick
}

// Config returns the engine configuration name from $VERIF_CONFIG
// (e.g. "clean", "fault", "byz"); default "clean".
func Config() string {
	if c := os.Getenv("VERIF_CONFIG"); c != "" {
		return c
	}
	return "clean"
}

// Hex renders bytes compactly for traces and samples.
func Hex(b []byte) string {
	const max = 48
	var sb strings.Builder
	for i, c := range b {
		if i == max {
			fmt.Fprintf(&sb, "…(+%d)", len(b)-max)
			break
		}
		fmt.Fprintf(&sb, "%02x", c)
	}
	return sb.String()
}

// ---------------------------------------------------------------------------
// Check wraps rapid.Check: it dumps statistics at the end of the test, honours
// the wall-clock budget $VERIF_BUDGET_S (a harness-level cap on how many runs are
// started; it never influences what happens inside a run; ignored once a
// violation has been seen so that shrinking is unaffected), and runs a hang
// watchdog: a run that does not finish within $VERIF_HANG_S (default 60) real
// seconds is a livelock in the code under test (deadlocks are caught by
// synctest); rapid cannot shrink that, so the process reports the violation
// together with the rapid seed of the run ("VERIF-SEEDREPLAY seed=N"), which
// replays it as `-rapid.seed=N -rapid.checks=1`.
func Check(t *testing.T, prop func(rt *rapid.T)) {
	t.Helper()
	t.Cleanup(func() { G.Dump(t.Name()) })
	var budget time.Duration
	if s := os.Getenv("VERIF_BUDGET_S"); s != "" {
		if f, err := strconv.ParseFloat(s, 64); err == nil {
			budget = time.Duration(f * float64(time.Second))
		}
	}
	hang := 60 * time.Second
	if s := os.Getenv("VERIF_HANG_S"); s != "" {
		if f, err := strconv.ParseFloat(s, 64); err == nil {
			hang = time.Duration(f * float64(time.Second))
		}
	}
	var baseSeed uint64
	if f := flag.Lookup("rapid.seed"); f != nil {
		baseSeed, _ = strconv.ParseUint(f.Value.String(), 10, 64)
	}
	var (
		wmu       sync.Mutex
		iter      uint64 // runs started in the search phase
		curSeed   uint64
		runStart  time.Time
		running   bool
		failSeed  uint64 // seed of the first failing run
		firstViol string
	)
	// The seed of the run in progress is kept in a side file so that the driver
	// can report (and replay) a run that crashed the whole process.
	var seedFile *os.File
	if sp := os.Getenv("VERIF_STATS"); sp != "" {
		seedFile, _ = os.OpenFile(sp+".curseed", os.O_CREATE|os.O_WRONLY|os.O_TRUNC, 0o644)
	}
	done := make(chan struct{})
	defer close(done)
	go func() {
		tk := time.NewTicker(500 * time.Millisecond)
		defer tk.Stop()
		for {
			select {
			case <-done:
				return
			case <-tk.C:
			}
			wmu.Lock()
			stuck := running && time.Since(runStart) > hang
			seed, fs, fv := curSeed, failSeed, firstViol
			wmu.Unlock()
			if !stuck {
				continue
			}
			buf := make([]byte, 1<<16)
			buf = buf[:runtime.Stack(buf, true)]
			if fv != "" {
				// hang while shrinking an earlier violation: report that one, unshrunk.
				fmt.Printf("VERIF-NOTE a shrink candidate hung; reporting the original violation unshrunk\n%s\nVERIF-SEEDREPLAY seed=%d\n", fv, fs)
			} else {
				prop := os.Getenv("VERIF_PROP")
				fmt.Printf("%s\nVERIF-SEEDREPLAY seed=%d\n", (&Violation{Prop: prop, Oracle: "hang", Sig: "hang",
					Detail: fmt.Sprintf("run did not finish within %v of wall time (livelock in code under test)", hang)}).String(), seed)
			}
			fmt.Printf("VERIF-STACKS\n%s\n", buf)
			G.Dump(t.Name())
			os.Exit(3)
		}
	}()
	start := time.Now()
	rapid.Check(t, func(rt *rapid.T) {
		classMu.Lock()
		pinned := pinClass != ""
		classMu.Unlock()
		if budget > 0 && !pinned && time.Since(start) > budget {
			G.Inc("budget_skipped_runs")
			wmu.Lock()
			iter++
			wmu.Unlock()
			return
		}
		wmu.Lock()
		if !pinned {
			// rapid's search phase uses seed_i = seed_{i-1} + i (cumulative).
			curSeed = baseSeed + iter*(iter+1)/2
			iter++
		}
		running, runStart = true, time.Now()
		cs, pin := curSeed, pinned
		wmu.Unlock()
		if seedFile != nil && !pin {
			var b [21]byte
			out := strconv.AppendUint(b[:0], cs, 10)
			out = append(out, '\n')
			for len(out) < 21 {
				out = append(out, ' ')
			}
			seedFile.WriteAt(out, 0)
		}
		defer func() {
			wmu.Lock()
			running = false
			classMu.Lock()
			if pinClass != "" && firstViol == "" {
				firstViol, failSeed = pinViol, curSeed
			}
			classMu.Unlock()
			wmu.Unlock()
		}()
		prop(rt)
	})
}
