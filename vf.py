#!/usr/bin/env python3
"""vf.py - driver of the deterministic-simulation checks for golang/net.

  vf.py setup                          build dir + warm all engine binaries
  vf.py check <Cxx> [--tier quick|thorough]
  vf.py replay <path-to-.fail>
  vf.py manifest                       regenerate MANIFEST.json from engines/*.json
  vf.py selftest determinism <engine-job> ...
  vf.py list

Exit codes of `check`: 0 property held on everything explored (KNOWN-FINDING lines
allowed), 1 + "VIOLATION property=<id> replay=<path>" for an unlisted violation,
2 for build failures, watchdogs, crashed workers, harness-internal errors and
unreproducible failures (never a VIOLATION line).
"""
import glob
import hashlib
import json
import os
import re
import shutil
import subprocess
import sys
import time

VERIF = os.path.dirname(os.path.abspath(__file__))
REPO = os.environ.get("VERIF_REPO", "/repo")
# VERIF_OUT relocates everything a check writes (used for sensitivity runs against
# a scratch worktree named by VERIF_REPO); by default it is /verif itself.
OUT = os.environ.get("VERIF_OUT", VERIF)
BUILD = os.path.join(OUT, "build")
BIN = os.path.join(OUT, "bin")
WORK = os.path.join(OUT, "work")
EVID = os.path.join(OUT, "evidence")
REPLAYS = os.path.join(OUT, "replays")
KNOWN = os.path.join(VERIF, "known_findings.txt")
NCPU = int(os.environ.get("VERIF_WORKERS", "16"))


def goenv():
    e = dict(os.environ)
    e["GOFLAGS"] = "-mod=mod"
    e["GOPROXY"] = "off"
    e.pop("GOSUMDB", None)
    e.pop("GOTOOLCHAIN", None)
    e["GOMAXPROCS"] = e.get("VERIF_BUILD_PROCS", "16")
    return e


def log(*a):
    print(*a, flush=True)


# --------------------------------------------------------------------------
# registry

def load_engines():
    engines = {}
    for p in sorted(glob.glob(os.path.join(VERIF, "engines", "*.json"))):
        with open(p) as f:
            e = json.load(f)
        engines[e["engine"]] = e
    return engines


def jobs_for(engines, prop):
    """Jobs registered for a property. VERIF_ONLY_ENGINE / VERIF_ONLY_CONFIG restrict
    them (development and sensitivity runs only; registered commands never set them)."""
    out = []
    only_e = os.environ.get("VERIF_ONLY_ENGINE")
    only_c = os.environ.get("VERIF_ONLY_CONFIG")
    for e in engines.values():
        if only_e and e["engine"] != only_e:
            continue
        for j in e.get("jobs", []):
            if only_c and j.get("config", "clean") != only_c:
                continue
            if j["property"] == prop:
                jj = dict(j)
                jj["engine"] = e["engine"]
                out.append(jj)
    return out


def all_properties():
    props = []
    with open(os.path.join(VERIF, "properties.jsonl")) as f:
        for line in f:
            line = line.strip()
            if line:
                props.append(json.loads(line))
    return props


# --------------------------------------------------------------------------
# build

def ensure_build_dir():
    os.makedirs(BUILD, exist_ok=True)
    os.makedirs(BIN, exist_ok=True)
    gomod = os.path.join(BUILD, "go.mod")
    with open(os.path.join(REPO, "go.mod")) as f:
        src = f.read()
    want = src.rstrip("\n") + "\n\nrequire (\n\tgithub.com/anishathalye/porcupine v1.3.0\n\tpgregory.net/rapid v1.3.0\n)\n"
    cur = None
    if os.path.exists(gomod):
        with open(gomod) as f:
            cur = f.read()
    # go may rewrite go.mod (formatting); only rewrite when the repo's part changed
    stamp = os.path.join(BUILD, "go.mod.src")
    old_src = open(stamp).read() if os.path.exists(stamp) else None
    if cur is None or old_src != src:
        with open(gomod, "w") as f:
            f.write(want)
        with open(stamp, "w") as f:
            f.write(src)
        shutil.copyfile(os.path.join(REPO, "go.sum"), os.path.join(BUILD, "go.sum"))


def overlay_for(engine):
    rep = {}
    for p in sorted(glob.glob(os.path.join(VERIF, "sim", "*.go"))):
        rep[os.path.join(REPO, "internal", "verifsim", os.path.basename(p))] = p
    pkg = engine["pkg"]
    for fn in engine["files"]:
        src = os.path.join(VERIF, "overlay", pkg, fn)
        if not os.path.exists(src):
            raise SystemExit("vf: missing overlay file %s" % src)
        rep[os.path.join(REPO, pkg, fn)] = src
    path = os.path.join(BUILD, "overlay-%s.json" % engine["engine"])
    with open(path, "w") as f:
        json.dump({"Replace": rep}, f, indent=1)
    return path


def build_engine(engine, quiet=False):
    """Build the engine's test binary from /repo's current working tree."""
    ensure_build_dir()
    ov = overlay_for(engine)
    out = os.path.join(BIN, engine["engine"] + ".test")
    tags = engine.get("tags", "")
    cmd = ["go", "test", "-c", "-vet=off", "-modfile", os.path.join(BUILD, "go.mod"),
           "-overlay", ov, "-o", out]
    if tags:
        cmd += ["-tags", tags]
    if engine.get("race"):
        cmd += ["-race"]
    cmd += ["./" + engine["pkg"]]
    t0 = time.time()
    r = subprocess.run(cmd, cwd=REPO, env=goenv(), stdout=subprocess.PIPE, stderr=subprocess.STDOUT, text=True)
    if r.returncode != 0:
        log("vf: BUILD FAILED for engine %s\n%s" % (engine["engine"], r.stdout))
        return None
    if not quiet:
        log("vf: built %s in %.1fs" % (engine["engine"], time.time() - t0))
    return out


# --------------------------------------------------------------------------
# known findings

def load_known():
    findings = []
    if not os.path.exists(KNOWN):
        return findings
    with open(KNOWN) as f:
        for line in f:
            line = line.strip()
            if not line.startswith("finding:"):
                continue
            m = re.match(r"finding:\s+property=(\S+)\s+oracle=(\S+)\s+match=(.*?)\s+::\s+(.*)$", line)
            if m:
                findings.append({"property": m.group(1), "oracle": m.group(2), "match": m.group(3), "what": m.group(4)})
    return findings


def match_known(findings, prop, oracle, sig):
    for k in findings:
        if k["property"] == prop and k["oracle"] == oracle and re.fullmatch(k["match"], sig):
            return k
    return None


# --------------------------------------------------------------------------
# running workers

VIOL_RE = re.compile(r'VERIF-VIOLATION property=(\S+) oracle=(\S+) sig="((?:[^"\\]|\\.)*)" :: (.*)')
FAILFILE_RE = re.compile(r'-rapid\.failfile="([^"]+)"')
SEEDREPLAY_RE = re.compile(r'VERIF-SEEDREPLAY seed=(\d+)')


def worker_cmd(binpath, job, seed, checks, timeout_s, failfile=None):
    cmd = [binpath, "-test.run", "^%s$" % job["test"], "-test.cpu", str(job.get("gomaxprocs", 1)), "-test.count", "1",
           "-test.timeout", "%ds" % timeout_s, "-test.v",
           "-rapid.shrinktime", os.environ.get("VERIF_SHRINKTIME", "45s")]
    if failfile and failfile.endswith(".seed"):
        with open(failfile) as f:
            cmd += ["-rapid.seed", str(json.load(f)["seed"]), "-rapid.nofailfile", "-rapid.checks", "1", "-rapid.shrinktime", "0s"]
    elif failfile:
        cmd += ["-rapid.failfile", failfile, "-rapid.nofailfile", "-rapid.checks", "1"]
    else:
        cmd += ["-rapid.checks", str(checks), "-rapid.seed", str(seed)]
    return cmd


def worker_env(job, tier, statsfile, budget_s):
    e = dict(os.environ)
    e["GOMAXPROCS"] = str(job.get("gomaxprocs", 1))
    e["GODEBUG"] = "asyncpreemptoff=1"
    e["VERIF_TIER"] = tier
    e["VERIF_CONFIG"] = job.get("config", "clean")
    e["VERIF_PROP"] = job["property"]
    if statsfile:
        e["VERIF_STATS"] = statsfile
    else:
        e.pop("VERIF_STATS", None)
    if budget_s:
        e["VERIF_BUDGET_S"] = str(budget_s)
    else:
        e.pop("VERIF_BUDGET_S", None)
    for k, v in job.get("env", {}).items():
        e[k] = str(v)
    return e


def parse_output(out):
    viol = None
    for m in VIOL_RE.finditer(out):
        viol = {"property": m.group(1), "oracle": m.group(2),
                "sig": bytes(m.group(3), "utf-8").decode("unicode_escape", "replace") if "\\" in m.group(3) else m.group(3),
                "detail": m.group(4)}
    ff = None
    for m in FAILFILE_RE.finditer(out):
        ff = m.group(1)
    harness = "VERIF-HARNESS" in out
    m = SEEDREPLAY_RE.search(out)
    if m:
        # hang watchdog: the first violation line before the marker is the verdict
        viol = None
        for vm in VIOL_RE.finditer(out[:m.start()]):
            viol = {"property": vm.group(1), "oracle": vm.group(2), "sig": vm.group(3), "detail": vm.group(4)}
        ff = "seed:" + m.group(1)
    return viol, ff, harness


def run_replay(binpath, job, tier, failfile, cwd):
    cmd = worker_cmd(binpath, job, 0, 1, 600, failfile=failfile)
    r = subprocess.run(cmd, cwd=cwd, env=worker_env(job, tier, None, 0), stdout=subprocess.PIPE,
                       stderr=subprocess.STDOUT, text=True, errors="replace")
    viol, _, harness = parse_output(r.stdout)
    return r.returncode, viol, harness, r.stdout


def cmd_check(prop, tier, seed):
    t0 = time.time()
    engines = load_engines()
    jobs = jobs_for(engines, prop)
    if not jobs:
        log("vf: no check registered for %s" % prop)
        return 2
    scale = float(os.environ.get("VERIF_SCALE", "1"))
    # build
    bins = {}
    for j in jobs:
        en = j["engine"]
        if en not in bins:
            b = build_engine(engines[en])
            if b is None:
                return 2
            bins[en] = b
    # distribute workers
    total_w = sum(j.get("workers", 1) for j in jobs)
    wdir_root = os.path.join(WORK, prop)
    shutil.rmtree(wdir_root, ignore_errors=True)
    os.makedirs(wdir_root)
    procs = []
    widx = 0
    for ji, j in enumerate(jobs):
        nw = max(1, round(j.get("workers", 1) * NCPU / max(total_w, NCPU))) if total_w > NCPU else j.get("workers", 1)
        checks_total = j["checks"][tier] if isinstance(j["checks"], dict) else j["checks"]
        checks = max(1, int(checks_total * scale / nw))
        budget = j.get("budget_s", {}).get(tier, 120 if tier == "quick" else 1200)
        for w in range(nw):
            wd = os.path.join(wdir_root, "w%02d" % widx)
            os.makedirs(wd)
            stats = os.path.join(wd, "stats.json")
            s = seed * 1000003 + widx * 7919 + ji * 101 + 1
            cmd = worker_cmd(bins[j["engine"]], j, s, checks, budget + 900)
            outf = open(os.path.join(wd, "out.log"), "w")
            p = subprocess.Popen(cmd, cwd=wd, env=worker_env(j, tier, stats, budget), stdout=outf, stderr=subprocess.STDOUT)
            procs.append({"p": p, "job": j, "wd": wd, "stats": stats, "seed": s, "out": outf, "checks": checks, "budget": budget})
            widx += 1
    # wait, with watchdog
    rc_final = 0
    deadline = time.time() + max(pr["budget"] for pr in procs) + 1000
    running = True
    while running:
        running = False
        for pr in procs:
            if pr["p"].poll() is None:
                running = True
        if running and time.time() > deadline:
            for pr in procs:
                if pr["p"].poll() is None:
                    pr["p"].kill()
                    pr["watchdog"] = True
            log("vf: WATCHDOG: workers exceeded wall limit")
            rc_final = 2
            break
        if running:
            time.sleep(0.2)
    for pr in procs:
        pr["p"].wait()
        pr["out"].close()

    # collect
    known = load_known()
    merged = {"runs": 0, "nontrivial": 0, "sim_seconds": 0.0, "counters": {}, "hashes": set(), "samples": [], "jobs": {}}
    violations = []
    known_hits = []
    for pr in procs:
        j = pr["job"]
        key = "%s/%s/%s" % (j["engine"], j["test"], j.get("config", "clean"))
        jm = merged["jobs"].setdefault(key, {"runs": 0, "nontrivial": 0, "workers": 0, "wall_s": 0.0})
        jm["workers"] += 1
        if os.path.exists(pr["stats"]):
            with open(pr["stats"]) as f:
                st = json.load(f)
            merged["runs"] += st["runs"]
            merged["nontrivial"] += st["nontrivial"]
            merged["sim_seconds"] += st["sim_seconds"]
            jm["runs"] += st["runs"]
            jm["nontrivial"] += st["nontrivial"]
            jm["wall_s"] = max(jm["wall_s"], st["wall_s"])
            for k, v in st["counters"].items():
                merged["counters"][k] = merged["counters"].get(k, 0) + v
            for h in (st["hashes"] or []):
                merged["hashes"].add(key + ":" + h)
            for s in (st["samples"] or []):
                if len(merged["samples"]) < 6:
                    merged["samples"].append({"job": key, "case": s})
        rc = pr["p"].returncode
        if rc == 0:
            continue
        with open(os.path.join(pr["wd"], "out.log"), errors="replace") as f:
            out = f.read()
        viol, ff, harness = parse_output(out)
        if pr.get("watchdog"):
            continue
        if viol is None and not harness and rc == 2 and re.search(r"^(panic:|fatal error:)", out, re.M) and "test timed out" not in out:
            # the whole test process crashed inside a run (a panic on a goroutine of
            # the code under test that nothing recovers): a crash is a violation if
            # the run that was in progress crashes again when replayed by its seed.
            cs = pr["stats"] + ".curseed"
            if os.path.exists(cs):
                try:
                    seed_of_run = int(open(cs).read().split()[0])
                except Exception:
                    seed_of_run = None
                if seed_of_run is not None:
                    m = re.search(r"^(panic:|fatal error:)(.*)$", out, re.M)
                    viol = {"property": prop, "oracle": "process_crash", "sig": "crash", "detail": "test process crashed: " + m.group(0)[:300]}
                    ff = "seed:%d" % seed_of_run
                    crash = True
        if viol is None or harness:
            log("vf: worker %s failed without a violation record (rc=%s, harness=%s); tail:\n%s" % (pr["wd"], rc, harness, out[-3000:]))
            rc_final = 2
            continue
        # save replay
        os.makedirs(os.path.join(REPLAYS, prop), exist_ok=True)
        h = hashlib.sha1((viol["oracle"] + viol["sig"]).encode()).hexdigest()[:10]
        base = os.path.join(REPLAYS, prop, "%d-%s" % (pr["seed"], h))
        rp = base + ".fail"
        if ff and ff.startswith("seed:"):
            rp = base + ".seed"
            with open(rp, "w") as f:
                json.dump({"seed": int(ff[5:])}, f)
        elif ff:
            src = ff if os.path.isabs(ff) else os.path.join(pr["wd"], ff)
            if os.path.exists(src):
                shutil.copyfile(src, rp)
        if not os.path.exists(rp):
            log("vf: worker %s reported a violation but no fail file was found; tail:\n%s" % (pr["wd"], out[-3000:]))
            rc_final = 2
            continue
        side = {"property": prop, "engine": j["engine"], "test": j["test"], "config": j.get("config", "clean"),
                "tier": tier, "env": j.get("env", {}), "gomaxprocs": j.get("gomaxprocs", 1),
                "worker_seed": pr["seed"], "violation": viol}
        with open(base + ".json", "w") as f:
            json.dump(side, f, indent=1)
        with open(base + ".log", "w") as f:
            f.write(out[-200000:])
        # confirm in a fresh process
        tries = 1 if not engines[j["engine"]].get("residual_nondeterminism") else 20
        ok = 0
        for _ in range(tries):
            rrc, rviol, rharness, _o = run_replay(bins[j["engine"]], j, tier, rp, pr["wd"])
            if viol["oracle"] == "process_crash" and rviol is None and rrc == 2 and re.search(r"^(panic:|fatal error:)", _o, re.M) and "test timed out" not in _o:
                rviol = viol
            if rviol and rviol["oracle"] == viol["oracle"] and rviol["property"] == viol["property"]:
                ok += 1
                if ok >= 1 and tries == 1:
                    break
                if ok >= 2:
                    break
        side["replay_reproduced"] = ok
        with open(base + ".json", "w") as f:
            json.dump(side, f, indent=1)
        if ok == 0:
            log("vf: violation %s/%s did not reproduce on replay (%d tries); treating as unreproducible (exit 2). log=%s" % (prop, viol["oracle"], tries, base + ".log"))
            rc_final = 2
            continue
        k = match_known(known, viol["property"], viol["oracle"], viol["sig"])
        if k:
            known_hits.append((k, viol, rp))
        else:
            violations.append((viol, rp))

    wall = time.time() - t0
    # evidence
    eng_names = sorted({j["engine"] for j in jobs})
    components = {en: engines[en].get("components", {}) for en in eng_names}
    assumptions = []
    for en in eng_names:
        assumptions += engines[en].get("assumptions", [])
    rule = " | ".join(sorted({j.get("rule", engines[j["engine"]].get("rule", "")) for j in jobs}))
    faults = {k[len("fault."):]: v for k, v in merged["counters"].items() if k.startswith("fault.")}
    probes = {k[len("probe."):]: v for k, v in merged["counters"].items() if k.startswith("probe.")}
    other = {k: v for k, v in merged["counters"].items() if not k.startswith("fault.") and not k.startswith("probe.")}
    ev = {
        "property_id": prop,
        "tier": tier,
        "seed": seed,
        "level": "exploration",
        "coverage": {
            "evaluations": merged["runs"],
            "distinct_nontrivial": len(merged["hashes"]),
            "nontrivial_runs": merged["nontrivial"],
            "rule": rule,
            "samples": merged["samples"],
            "simulated_seconds": round(merged["sim_seconds"], 3),
            "runs_per_hour": int(merged["runs"] / wall * 3600) if wall > 0 else 0,
            "seeds": [pr["seed"] for pr in procs],
            "faults_fired": faults,
            "probes": probes,
            "counters": other,
            "jobs": merged["jobs"],
            "components": components,
            "stuck_probes": sorted([k for k, v in probes.items() if v == 0]),
        },
        "assumptions": assumptions,
        "wall_s": round(wall, 2),
        "violations": len(violations),
        "known_findings_hit": len(known_hits),
    }
    os.makedirs(EVID, exist_ok=True)
    with open(os.path.join(EVID, prop + ".json"), "w") as f:
        json.dump(ev, f, indent=1, sort_keys=True)
        f.write("\n")
    log("vf: %s tier=%s seed=%d runs=%d distinct=%d wall=%.1fs" % (prop, tier, seed, merged["runs"], len(merged["hashes"]), wall))
    zero = [k for k, v in probes.items() if v == 0]
    if zero:
        log("vf: probes stuck at zero: %s" % ", ".join(sorted(zero)))
    seen = set()
    for k, viol, rp in known_hits:
        if k["what"] in seen:
            continue
        seen.add(k["what"])
        log("KNOWN-FINDING: property=%s %s (replay=%s)" % (prop, k["what"], rp))
    if violations:
        for viol, rp in violations:
            log("VIOLATION property=%s replay=%s" % (prop, rp))
            log("  oracle=%s sig=%s :: %s" % (viol["oracle"], viol["sig"], viol["detail"][:2000]))
        return 1
    if rc_final == 0 and merged["runs"] == 0:
        log("vf: no runs executed")
        return 2
    return rc_final


def cmd_replay(path):
    path = os.path.abspath(path)
    side = os.path.splitext(path)[0] + ".json"
    with open(side) as f:
        meta = json.load(f)
    engines = load_engines()
    eng = engines[meta["engine"]]
    b = build_engine(eng, quiet=True)
    if b is None:
        return 2
    job = {"property": meta["property"], "test": meta["test"], "config": meta["config"], "env": meta.get("env", {}),
           "gomaxprocs": meta.get("gomaxprocs", 1)}
    wd = os.path.join(WORK, "replay")
    os.makedirs(wd, exist_ok=True)
    tries = 1 if not eng.get("residual_nondeterminism") else 20
    for i in range(tries):
        rc, viol, harness, out = run_replay(b, job, meta["tier"], path, wd)
        if viol is None and meta.get("violation", {}).get("oracle") == "process_crash" and rc == 2 and re.search(r"^(panic:|fatal error:)", out, re.M):
            viol = meta["violation"]
            print(out[-3000:])
        if viol:
            for line in out.splitlines():
                if "VERIF-TRACE" in line:
                    print(line.split("VERIF-TRACE", 1)[1])
            log("VIOLATION property=%s replay=%s" % (viol["property"], path))
            log("  oracle=%s sig=%s :: %s" % (viol["oracle"], viol["sig"], viol["detail"][:4000]))
            return 1
        if harness or rc not in (0, 1):
            log(out[-4000:])
            return 2
    log("vf: replay of %s did not reproduce a violation (%d tries)" % (path, tries))
    return 0


def cmd_setup():
    ensure_build_dir()
    engines = load_engines()
    ok = True
    for e in engines.values():
        if build_engine(e) is None:
            ok = False
    return 0 if ok else 2


def gen_manifest():
    engines = load_engines()
    props = all_properties()
    with open(os.path.join(VERIF, "meta", "na.json")) as f:
        na = json.load(f)
    with open(os.path.join(VERIF, "meta", "hooks.json")) as f:
        hooks = json.load(f)
    checks = []
    claimed = set()
    for p in props:
        pid = p["id"]
        jobs = jobs_for(engines, pid)
        if not jobs:
            continue
        claimed.add(pid)
        metas = [engines[j["engine"]].get("properties", {}).get(pid) for j in jobs]
        metas = [m for m in metas if m]
        if not metas:
            raise SystemExit("vf: no property metadata for %s" % pid)
        m = metas[0]
        eng_names = sorted({j["engine"] for j in jobs})
        checks.append({
            "property_id": pid,
            "quick_cmd": "python3 vf.py check %s --tier quick" % pid,
            "thorough_cmd": "python3 vf.py check %s --tier thorough" % pid,
            "evidence_file": "evidence/%s.json" % pid,
            "replay_cmd_template": "python3 vf.py replay {path}",
            "engine": "+".join(eng_names),
            "level_claimed": {"category": "exploration", "text": " ".join(mm["level_text"] for mm in metas), "design_ref": "DESIGN.md §5 %s" % pid},
            "level_note": " ".join(mm["level_note"] for mm in metas),
            "technique": m.get("technique", "deterministic simulation with fault injection: seeded schedule/fault search (rapid), oracle on every step, shrunk replay file"),
        })
    nas = []
    for p in props:
        pid = p["id"]
        if pid in claimed:
            continue
        if pid not in na:
            nas.append({"property_id": pid, "reason": "no claim yet: the simulation check designed in DESIGN.md section 5 for this property is not built (or was withdrawn); nothing is asserted about it"})
            continue
        nas.append({"property_id": pid, "reason": na[pid]})
    man = {
        "version": 1,
        "setup_cmd": "python3 vf.py setup",
        "hooks": hooks,
        "engines": [{"name": e["engine"], "path": "overlay/%s/ (+ sim/)" % e["pkg"],
                     "serves_properties": sorted({j["property"] for j in e.get("jobs", [])}),
                     "kind_free_text": e.get("kind", "")} for e in engines.values()],
        "checks": checks,
        "notes": "All checks are seeded deterministic simulations driven by vf.py; see DESIGN.md. VERIF_SEED selects the base seed; VERIF_SCALE scales run counts.",
        "not_applicable": nas,
    }
    with open(os.path.join(VERIF, "MANIFEST.json"), "w") as f:
        json.dump(man, f, indent=1)
        f.write("\n")
    log("vf: MANIFEST.json: %d checks, %d not applicable" % (len(checks), len(nas)))
    return 0


def cmd_selftest_determinism(prop, nseeds, tier="quick"):
    """Run every job of a property nseeds x 2 times (few checks each) with trace
    hashing and compare the per-process hash sets at GOMAXPROCS 1."""
    engines = load_engines()
    jobs = jobs_for(engines, prop)
    bad = 0
    total = 0
    per = {}
    for j in jobs:
        b = build_engine(engines[j["engine"]], quiet=True)
        if b is None:
            return 2
        for gmp in (1, 4, 16):
            for s in range(1, nseeds + 1):
                res = []
                procs = []
                for rep in range(2):
                    wd = os.path.join(WORK, "det", "%s-%d-%d-%d" % (j["test"], gmp, s, rep))
                    shutil.rmtree(wd, ignore_errors=True)
                    os.makedirs(wd)
                    stats = os.path.join(wd, "stats.json")
                    jj = dict(j)
                    jj["gomaxprocs"] = gmp
                    cmd = worker_cmd(b, jj, s * 7919, 40, 900)
                    procs.append((subprocess.Popen(cmd, cwd=wd, env=worker_env(jj, tier, stats, 0), stdout=subprocess.DEVNULL, stderr=subprocess.DEVNULL), stats))
                for p, stats in procs:
                    p.wait()
                    if os.path.exists(stats):
                        with open(stats) as f:
                            st = json.load(f)
                        res.append((st["runs"], tuple(st["hashes"])))
                    else:
                        res.append(None)
                total += 1
                pg = per.setdefault(gmp, [0, 0])
                pg[1] += 1
                if not (len(res) != 2 or res[0] is None or res[0] != res[1]):
                    pg[0] += 1
                if len(res) != 2 or res[0] is None or res[0] != res[1]:
                    bad += 1
                    log("vf: determinism MISMATCH job=%s/%s gomaxprocs=%d seed=%d" % (j["test"], j.get("config"), gmp, s))
    log("vf: determinism %s: %d/%d seed pairs identical (%s)" % (prop, total - bad, total, ", ".join("GOMAXPROCS=%d: %d/%d" % (g, v[0], v[1]) for g, v in sorted(per.items()))))
    shutil.rmtree(os.path.join(WORK, "det"), ignore_errors=True)
    return 0 if bad == 0 else 3


def main(argv):
    if len(argv) < 2:
        print(__doc__)
        return 2
    c = argv[1]
    if c == "setup":
        return cmd_setup()
    if c == "list":
        engines = load_engines()
        for p in all_properties():
            js = jobs_for(engines, p["id"])
            print(p["id"], ",".join("%s:%s:%s" % (j["engine"], j["test"], j.get("config", "clean")) for j in js) or "-")
        return 0
    if c == "manifest":
        return gen_manifest()
    if c == "check":
        prop = argv[2]
        tier = os.environ.get("VERIF_TIER", "quick")
        if "--tier" in argv:
            tier = argv[argv.index("--tier") + 1]
        seed = int(os.environ.get("VERIF_SEED", "1"))
        return cmd_check(prop, tier, seed)
    if c == "replay":
        return cmd_replay(argv[2])
    if c == "selftest" and argv[2] == "determinism":
        n = int(argv[4]) if len(argv) > 4 else 10
        return cmd_selftest_determinism(argv[3], n)
    print(__doc__)
    return 2


if __name__ == "__main__":
    sys.exit(main(sys.argv))
