#!/usr/bin/env python3
"""tools/seedverify.py <ID> [--src /tmp/seedout/<ID>] [--props Cxx,Cyy] [--name <seeded-id>]

Confirms a seeded property-breaking change produced by an independent sub-agent
and, if it holds up, files it under /verif/seeded/<seeded-id>/:
  1. demo passes on a clean scratch worktree of /repo HEAD,
  2. the patch applies, the tree builds, the touched packages' own tests pass,
  3. the demo fails with the patch,
  4. the /verif quick check(s) of the property are run against the patched tree
     (tools/mutcheck.sh) and the verdict recorded.
Nothing is ever applied to /repo itself; the scratch worktree is removed.
"""
import json
import os
import re
import shutil
import subprocess
import sys
import time

VERIF = os.path.dirname(os.path.dirname(os.path.abspath(__file__)))


def sh(cmd, cwd=None, env=None, timeout=3600):
    e = dict(os.environ)
    e["GOFLAGS"] = "-mod=mod"
    e["GOPROXY"] = "off"
    e.pop("GOSUMDB", None)
    e.pop("GOTOOLCHAIN", None)
    if env:
        e.update(env)
    r = subprocess.run(cmd, cwd=cwd, env=e, shell=isinstance(cmd, str), stdout=subprocess.PIPE, stderr=subprocess.STDOUT, text=True, errors="replace", timeout=timeout)
    return r.returncode, r.stdout


def main():
    args = sys.argv[1:]
    pid = args[0]
    src = "/tmp/seedout/" + pid
    props = [pid]
    name = pid
    i = 1
    while i < len(args):
        if args[i] == "--src":
            src = args[i + 1]
        elif args[i] == "--props":
            props = args[i + 1].split(",")
        elif args[i] == "--name":
            name = args[i + 1]
        i += 2
    patch = os.path.join(src, "patch.diff")
    if not os.path.exists(patch) or os.path.getsize(patch) == 0:
        print("seedverify: no patch for", pid)
        return 2
    demos = [f for f in os.listdir(src) if f.endswith("_test.go")]
    pkg = open(os.path.join(src, "demo_pkg.txt")).read().strip().strip("./") if os.path.exists(os.path.join(src, "demo_pkg.txt")) else None
    wt = "/tmp/seedverify-%s-%d" % (pid, os.getpid())
    rc, out = sh(["git", "-C", "/repo", "worktree", "add", "-q", "--detach", wt, "HEAD"])
    if rc != 0:
        print(out)
        return 2
    result = {"id": name, "property": props, "verified_at_repo_commit": sh(["git", "-C", "/repo", "rev-parse", "--short", "HEAD"])[1].strip()}
    try:
        # touched packages
        rc, out = sh(["git", "apply", "--numstat", patch], cwd=wt)
        files = [l.split("\t")[2] for l in out.strip().splitlines() if "\t" in l]
        pkgs = sorted({os.path.dirname(f) for f in files if f.endswith(".go")})
        result["files"] = files
        if any(f.endswith("_test.go") for f in files):
            result["verdict"] = "rejected: patch touches test files"
            print(json.dumps(result, indent=1))
            return 1
        if not pkg and pkgs:
            pkg = pkgs[0]
        testname = "TestSeed" + pid
        for d in demos:
            shutil.copyfile(os.path.join(src, d), os.path.join(wt, pkg, d))
        # 1. demo on clean tree
        t0 = time.time()
        rc, out = sh(["go", "test", "-vet=off", "-count=1", "-run", "^%s$" % testname, "./" + pkg], cwd=wt)
        result["demo_clean"] = "PASS" if rc == 0 and "no tests to run" not in out else "FAIL"
        result["demo_clean_tail"] = out[-600:]
        # 2. apply patch, build, package tests (without the demo)
        rc, out = sh(["git", "apply", patch], cwd=wt)
        if rc != 0:
            result["verdict"] = "rejected: patch does not apply: " + out[-300:]
            print(json.dumps(result, indent=1))
            return 1
        rc, out = sh(["go", "build", "./..."], cwd=wt)
        result["build"] = "ok" if rc == 0 else out[-800:]
        rc, out = sh(["go", "test", "-vet=off", "-count=1", "-run", "^%s$" % testname, "./" + pkg], cwd=wt)
        result["demo_patched"] = "FAIL" if rc != 0 else "PASS"
        result["demo_patched_tail"] = out[-1200:]
        for d in demos:
            os.remove(os.path.join(wt, pkg, d))
        suite = {}
        for p in pkgs:
            rc, out = sh(["go", "test", "-vet=off", "-count=1", "./" + p], cwd=wt)
            suite[p] = "PASS" if rc == 0 else "FAIL: " + out[-800:]
        result["package_tests_patched"] = suite
        result["seconds"] = round(time.time() - t0)
    finally:
        sh(["git", "-C", "/repo", "worktree", "remove", "--force", wt])
        shutil.rmtree(wt, ignore_errors=True)
    ok = result.get("demo_clean") == "PASS" and result.get("build") == "ok" and result.get("demo_patched") == "FAIL" and all(v == "PASS" for v in result["package_tests_patched"].values())
    result["confirmed"] = ok
    if not ok:
        result["verdict"] = "rejected: confirmation failed"
        print(json.dumps(result, indent=1))
        return 1
    # 4. our checks
    checks = {}
    for p in props:
        rc, out = sh([os.path.join(VERIF, "tools", "mutcheck.sh"), patch, p], cwd=VERIF, env={"VERIF_SHRINKTIME": "15s"}, timeout=7200)
        m = re.search(r"mutcheck: %s rc=(\d+)" % p, out)
        oracles = sorted(set(re.findall(r"oracle=(\S+)", out)))
        checks[p] = {"rc": int(m.group(1)) if m else None, "oracles": oracles, "caught": bool(m and m.group(1) == "1"), "tail": out[-1500:]}
    result["verif_checks"] = checks
    result["caught"] = any(c["caught"] for c in checks.values())
    dst = os.path.join(VERIF, "seeded", name)
    os.makedirs(dst, exist_ok=True)
    shutil.copyfile(patch, os.path.join(dst, "patch.diff"))
    for d in demos:
        shutil.copyfile(os.path.join(src, d), os.path.join(dst, d))
    if os.path.exists(os.path.join(src, "notes.md")):
        shutil.copyfile(os.path.join(src, "notes.md"), os.path.join(dst, "notes.md"))
    meta = {
        "id": name,
        "breaks_property": props,
        "demo_package": pkg,
        "demo_test": testname,
        "needs_to_manifest": "see notes.md (written by the seeding sub-agent)",
        "confirmed_by_lead": {
            "repo_commit": result["verified_at_repo_commit"],
            "ran": [
                "go test -run ^%s$ ./%s on clean worktree: %s" % (testname, pkg, result["demo_clean"]),
                "git apply patch.diff; go build ./...: %s" % result["build"],
                "go test -run ^%s$ ./%s with patch: %s" % (testname, pkg, result["demo_patched"]),
                "go test ./%s with patch (demo removed): %s" % (",".join(pkgs), "; ".join("%s=%s" % kv for kv in result["package_tests_patched"].items())),
            ],
        },
        "verif_quick_checks_against_patch": {p: {"caught": c["caught"], "exit": c["rc"], "oracles": c["oracles"]} for p, c in checks.items()},
    }
    with open(os.path.join(dst, "meta.json"), "w") as f:
        json.dump(meta, f, indent=1)
    print(json.dumps({k: v for k, v in result.items() if not k.endswith("_tail")}, indent=1)[:3000])
    for p, c in checks.items():
        print("== %s caught=%s oracles=%s" % (p, c["caught"], c["oracles"]))
        if not c["caught"]:
            print(c["tail"][-800:])
    return 0


if __name__ == "__main__":
    sys.exit(main())
