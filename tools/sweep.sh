#!/bin/bash
# tools/sweep.sh <tier> <Cxx>...   run checks one after another, keep a copy of each
# evidence file under evidence_<tier>/ and a summary line per check in work/sweep-<tier>.log
tier=$1; shift
mkdir -p /verif/evidence_$tier /verif/work
for p in "$@"; do
  t0=$(date +%s)
  python3 /verif/vf.py check $p --tier $tier > /verif/work/sweep-$tier-$p.out 2>&1
  rc=$?
  cp /verif/evidence/$p.json /verif/evidence_$tier/$p.json 2>/dev/null
  echo "$(date +%H:%M:%S) $p tier=$tier rc=$rc secs=$(( $(date +%s) - t0 )) $(grep -E '^vf: C[0-9]+ tier' /verif/work/sweep-$tier-$p.out | tail -1)" >> /verif/work/sweep-$tier.log
  grep -E '^(VIOLATION|KNOWN-FINDING|vf: (WATCHDOG|worker))' /verif/work/sweep-$tier-$p.out | head -5 >> /verif/work/sweep-$tier.log
done
echo "$(date +%H:%M:%S) sweep done" >> /verif/work/sweep-$tier.log
