#!/bin/bash
# tools/selfmut_all.sh [<Cxx>...]
# Runs tools/mutcheck.sh for every diff under /verif/selfmut/<Cxx>/ (all
# properties, or the ones given) against the quick check of that property and
# appends one line per diff to /verif/selfmut/RESULTS.tsv:
#   <Cxx> <diff> <verdict: caught|MISSED|noapply|error> <oracles> <repo commit> <seconds>
# Diffs already listed for the current /repo commit are skipped (resumable) unless SELFMUT_FORCE is set.
cd /verif
res=/verif/selfmut/RESULTS.tsv
commit=$(git -C /repo rev-parse --short HEAD)
touch $res
props="$@"
[ -z "$props" ] && props=$(ls selfmut | grep '^C[0-9]')
for p in $props; do
  for d in selfmut/$p/*.diff; do
    [ -f "$d" ] || continue
    name=$(basename $d)
    [ -z "$SELFMUT_FORCE" ] && grep -q "^$p	$name	[a-zA-Z]*	[^	]*	$commit	" $res && continue
    t0=$(date +%s)
    out=$(VERIF_SHRINKTIME=5s tools/mutcheck.sh $d $p 2>&1)
    rc=$(echo "$out" | sed -n "s/^mutcheck: $p rc=\([0-9]*\).*/\1/p" | head -1)
    oracles=$(echo "$out" | grep "distinct oracles" | grep -o 'oracle=[^ ]*' | sed 's/oracle=//' | sort -u | tr '\n' ',' | sed 's/,$//')
    case "$rc" in
      1) v=caught;;
      0) v=MISSED;;
      *) if echo "$out" | grep -q "patch does not apply"; then v=noapply; else v=error; fi;;
    esac
    printf "%s\t%s\t%s\t%s\t%s\t%s\n" "$p" "$name" "$v" "${oracles:--}" "$commit" "$(( $(date +%s) - t0 ))" >> $res
  done
done
echo "selfmut_all done $(date +%H:%M:%S)" >> /verif/work/selfmut_all.log
