#!/usr/bin/env python3
"""tools/design_tables.py  -  regenerates DESIGN.md section 10.5 (between the
markers <!-- BEGIN 10.5 --> and <!-- END 10.5 -->) from
  /verif/seeded/*/meta.json  + notes.md first heading   (changes made by independent sub-agents)
  /verif/selfmut/RESULTS.tsv                            (changes written by the engine authors)
"""
import collections
import glob
import json
import os
import re

V = '/verif'


def first_heading(path):
    try:
        for line in open(path, errors='replace'):
            line = line.strip()
            if line.startswith('#'):
                t = line.lstrip('#').strip()
                t = re.sub(r'^(seed\s+)?C\d+b?\s*(seed)?\s*(\([^)]*\))?\s*[:\-–—]*\s*', '', t, flags=re.I)
                t = re.sub(r'^\([^)]*\)\s*[:\-–—]*\s*', '', t)
                return t
    except OSError:
        pass
    return ''


def seeded_rows():
    rows = []
    for m in sorted(glob.glob(V + '/seeded/*/meta.json')):
        d = json.load(open(m))
        dirn = os.path.dirname(m)
        patch = open(os.path.join(dirn, 'patch.diff')).read()
        files = sorted(set(re.findall(r'^\+\+\+ b/(\S+)', patch, re.M)))
        chk = d['verif_quick_checks_against_patch']
        verdict = []
        for p, c in chk.items():
            verdict.append('%s: %s%s' % (p, 'caught' if c['caught'] else 'MISSED', (' (' + ', '.join(c['oracles'][:3]) + ')') if c['oracles'] else ''))
        what = first_heading(os.path.join(dirn, 'notes.md'))
        rows.append('| %s | %s | %s | %s | %s |' % (d['id'], ', '.join(files), what.replace('|', '/'), '; '.join(verdict), d.get('strengthened', '').replace('|', '/')))
    return rows


def selfmut_rows():
    by = collections.OrderedDict()
    path = V + '/selfmut/RESULTS.tsv'
    if not os.path.exists(path):
        return []
    last = {}
    for line in open(path):
        f = line.rstrip('\n').split('\t')
        if len(f) < 6:
            continue
        last[(f[0], f[1])] = f  # the latest run of a diff wins
    for (p, name), f in sorted(last.items()):
        by.setdefault(p, []).append(f)
    rows = []
    for p, fs in by.items():
        caught = [f for f in fs if f[2] == 'caught']
        missed = [f for f in fs if f[2] == 'MISSED']
        stale = [f for f in fs if f[2] in ('noapply', 'error')]
        oracles = collections.Counter()
        for f in caught:
            for o in f[3].split(','):
                if o and o != '-':
                    oracles[o] += 1
        rows.append('| %s | %d | %d | %s | %s | %s |' % (
            p, len(fs), len(caught),
            ', '.join('%s (%d)' % kv for kv in oracles.most_common(6)),
            ', '.join(f[1][:-5] for f in missed) or '-',
            ', '.join(f[1][:-5] for f in stale) or '-'))
    return rows


def main():
    out = []
    out.append('<!-- BEGIN 10.5 -->')
    out.append('### 10.5 Which check catches which change')
    out.append('')
    out.append('Two sets of deliberate property-breaking changes were run against the quick tier, each in a')
    out.append('scratch worktree of /repo (`tools/mutcheck.sh`), never in /repo itself.')
    out.append('')
    out.append('**(a) Changes made by independent sub-agents** that were given only the property text and')
    out.append('their own worktree (nothing from /verif), asked for a change that compiles, passes the')
    out.append('existing tests and breaks the property, with a demonstration test. Each was confirmed by')
    out.append('the lead (`tools/seedverify.py`: demonstration passes on the clean tree, fails with the')
    out.append('patch; the touched packages\' own tests pass with the patch) and is stored under')
    out.append('`seeded/<id>/` (patch.diff, demonstration, notes.md, meta.json). "first verification MISSED"')
    out.append('marks changes the checks did not catch at first; the note says what was added to the engine')
    out.append('(generator or oracle, never a special case for the change), after which the change was')
    rows = seeded_rows()
    missed = [r.split('|')[1].strip() for r in rows if ': MISSED' in r.split('|')[4] and ': caught' not in r.split('|')[4]]
    other = [r.split('|')[1].strip() for r in rows if ': MISSED' in r.split('|')[4] and ': caught' in r.split('|')[4]]
    out.append('caught. %d of %d are caught by the quick tier now%s.' % (len(rows) - len(missed), len(rows), ((' (not caught: ' + ', '.join(missed) + ', see their notes') + ((';  caught by the check of a neighbouring property only: ' + ', '.join(other)) if other else '') + ')') if missed or other else ''))
    out.append('')
    out.append('| id | file | change (from the seeder\'s notes) | quick check verdict (oracles) | strengthening |')
    out.append('|---|---|---|---|---|')
    out.extend(seeded_rows())
    out.append('')
    out.append('**(b) Changes written by the engine authors** (`selfmut/<Cxx>/*.diff`, run by')
    out.append('`tools/selfmut_all.sh`, results in `selfmut/RESULTS.tsv`). "not caught" lists changes the')
    out.append('quick tier does not flag: they are either equivalent with respect to the property statement')
    out.append('or need the thorough tier; "stale" are diffs that no longer apply after a fix.')
    out.append('')
    out.append('| property | diffs | caught | oracles that fired (number of diffs) | not caught | stale |')
    out.append('|---|---|---|---|---|---|')
    out.extend(selfmut_rows())
    out.append('<!-- END 10.5 -->')
    text = '\n'.join(out) + '\n'
    p = V + '/DESIGN.md'
    s = open(p).read()
    if '<!-- BEGIN 10.5 -->' in s:
        s = re.sub(r'<!-- BEGIN 10\.5 -->.*?<!-- END 10\.5 -->\n', lambda m: text, s, flags=re.S)
    else:
        s = s.rstrip('\n') + '\n\n' + text
    open(p, 'w').write(s)
    print('10.5 written: %d seeded rows, %d selfmut rows' % (len(seeded_rows()), len(selfmut_rows())))


if __name__ == '__main__':
    main()
