#!/bin/bash
# tools/mutcheck.sh <patch.diff> <Cxx> [<Cxx>...]
# Sensitivity run: applies a patch to a scratch worktree of /repo (never to /repo
# itself), runs the quick checks of the given properties against it with all
# outputs relocated to a scratch directory, prints each check's verdict, and
# removes the worktree and the outputs.
set -u
patch=$(readlink -f "$1"); shift
id=$$-$RANDOM
wt=/tmp/vfmut-$id
out=/tmp/vfmut-$id-out
git -C /repo worktree add -q --detach "$wt" HEAD || exit 2
cleanup() { git -C /repo worktree remove --force "$wt" 2>/dev/null; rm -rf "$out"; }
trap cleanup EXIT
if ! git -C "$wt" apply "$patch"; then echo "mutcheck: patch does not apply"; exit 2; fi
rc_all=0
for p in "$@"; do
  VERIF_SHRINKTIME=${VERIF_SHRINKTIME:-15s} VERIF_REPO=$wt VERIF_OUT=$out python3 /verif/vf.py check "$p" --tier "${VERIF_TIER:-quick}" > "$out.$p.log" 2>&1
  rc=$?
  echo "mutcheck: $p rc=$rc $(grep -c '^VIOLATION' "$out.$p.log") violation line(s)"
  grep -A1 '^VIOLATION' "$out.$p.log" | head -4
  echo "mutcheck: $p distinct oracles: $(grep -o 'oracle=[^ ]*' "$out.$p.log" | sort | uniq -c | tr '\n' ' ')"
  [ $rc -eq 2 ] && tail -20 "$out.$p.log"
  rm -f "$out.$p.log"
done
