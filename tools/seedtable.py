#!/usr/bin/env python3
"""Prints the markdown table of /verif/seeded/*/meta.json (for DESIGN.md 10.5)."""
import glob, json, os, re
rows = []
for m in sorted(glob.glob('/verif/seeded/*/meta.json')):
    d = json.load(open(m))
    notes = os.path.join(os.path.dirname(m), 'notes.md')
    patch = open(os.path.join(os.path.dirname(m), 'patch.diff')).read()
    files = sorted(set(re.findall(r'^\+\+\+ b/(\S+)', patch, re.M)))
    chk = d['verif_quick_checks_against_patch']
    verdict = []
    for p, c in chk.items():
        verdict.append('%s: %s%s' % (p, 'caught' if c['caught'] else 'MISSED', (' (' + ', '.join(c['oracles'][:3]) + ')') if c['oracles'] else ''))
    rows.append('| %s | %s | %s | %s |' % (d['id'], ', '.join(files), '; '.join(verdict), d.get('strengthened', '')))
print('| seeded change | files touched | quick check verdict | note |')
print('|---|---|---|---|')
print('\n'.join(rows))
